// Family `gen`: differential validation of the source-to-Lean translators translate/levels_to_lean.py,
// translate/hashstream_to_lean.py, translate/counterarray_to_lean.py and translate/nodeheaders_to_lean.py.  The REAL inline functions of
// forest_levels.h / defines.h / hash_stream.h / arrays.h (as compiled into this harness from /repo's current
// headers) and the real counter_array of the library (arrays.cc) are called on many inputs; the acceptor
// lean/MeddlyModel/Fam/GenAccept.lean evaluates the GENERATED Lean functions on the same inputs.
//
//   lv <fn> <k> -> <r>            fn: ABS MDD.downLevel MDD.upLevel MXD.downLevel MXD.upLevel
//                                     MXD.unprimedOfLevel MXD.primedOfLevel
//   lv <fn> <k1> <k2> -> <r>      fn: MAX MDD.topLevel MXD.topLevel MXD.topUnprimed isLevelAbove (r = 0 | 1)
//   hr <x> <k> -> <r>             hash_stream::rot(x, k)             (0 < k < 32; all words in decimal)
//   hm mix <a> <b> <c> -> <a'> <b'> <c'>        hash_stream::mix(a, b, c)       (static, reference parameters)
//   hm final_mix <a> <b> <c> -> <a'> <b'> <c'>  hash_stream::final_mix(a, b, c)
//   hs <init|-> <spec> <w1> .. <wn> -> <h>      start(init) (`-`: start()), then one call per character of
//                                               <spec> (`1` push(a), `2` push(a,b), `3` push(a,b,c); `.` = no
//                                               call) consuming the words in order, then finish()
//                                               -> `throw <E>` if a call throws
//   gc new <0|1>                  a fresh counter_array (1: with a recording array_watcher)
//   gc <op> <args> -> <result> <entry_bits>      op: expand n | shrink n | get i | swap i j | inc i | dec i |
//                                               izbi i | ipad i | rep n inc|dec|izbi|ipad i (-> sum of the n results)
//   gc watched -> <e|s>:<old>:<new> ...         the calls received by the watcher so far (`-` if none)
//   nh forest <0|1>               a fresh MT forest of a real domain (1: node_headers::pessimistic is set)
//   nh adopt <h> <lvl> <in> <cc>  after createReducedNode (not translated): the observed header of every handle it changed
//   nh kids <h> <k1> .. <kn>      the children of a NEW node h (terminals <= 0)
//   nh link <h> -> <ret> <A|D|F> <in> <cc>      forest::linkNode(h) (-> node_headers::linkNode): returned handle and the
//   nh unlink|cache|uncache <h> -> <A|D|F> <in> <cc>      header of h after the call: A isActiveNode, D deleted with
//                                               cache count > 0, F deleted with cache count 0; in / cc =
//                                               getNodeInCount / verifCacheCount
//   nh also <h> -> <A|D|F> <in> <cc>            every OTHER handle whose header changed during the call (deletion cascade)
//   nh end -> <n>                               number of `also` records of the call
// Cases: 0 unary level functions, 1..5 one binary level function each (all pairs of [-40,40] and large levels),
//        6 rot / mix / final_mix, 7.. random hash streams (200 per case), then 24 (thorough 80) counter_array
//        histories: in-contract call sequences that push single counters across 255/256 and 65535/65536 in both
//        directions, interleaved with expand / shrink (with and without narrowing 16->8, 32->16, 32->8), then 16 (thorough
//        60) node_headers histories: random in-contract link / unlink / cache / uncache calls on the REAL nodes of a real
//        forest (pessimistic and optimistic / never-delete policies alternate), nodes built in between by createReducedNode.
#include "common.h"
#include "forest_levels.h"
#include "hash_stream.h"
#include "arrays.h"
#include <climits>
using namespace MEDDLY;
using namespace mdh;

namespace {

// the protected static helpers of hash_stream
struct HS : public hash_stream {
    static unsigned rot_(unsigned x, int k) { return rot(x, k); }
    static void mix_(unsigned& a, unsigned& b, unsigned& c) { mix(a, b, c); }
    static void final_mix_(unsigned& a, unsigned& b, unsigned& c) { final_mix(a, b, c); }
};

std::vector<int> levelValues() {
    std::vector<int> v;
    for (int k = -40; k <= 40; k++) v.push_back(k);
    const int P30 = 1 << 30;
    // large levels for which no function below overflows (|k| <= 2^31 - 2)
    for (int k : {P30 - 1, -(P30 - 1), P30, -P30, INT_MAX - 1, -(INT_MAX - 1), 1000000007, -1000000007}) v.push_back(k);
    return v;
}

void unaryLevels() {
    struct U { const char* name; int (*fn)(int); };
    const U fns[] = {
        {"ABS", [](int k) { return ABS(k); }},
        {"MDD.downLevel", [](int k) { return MDD_levels::downLevel(k); }},
        {"MDD.upLevel", [](int k) { return MDD_levels::upLevel(k); }},
        {"MXD.downLevel", [](int k) { return MXD_levels::downLevel(k); }},
        {"MXD.upLevel", [](int k) { return MXD_levels::upLevel(k); }},
        {"MXD.unprimedOfLevel", [](int k) { return MXD_levels::unprimedOfLevel(k); }},
        {"MXD.primedOfLevel", [](int k) { return MXD_levels::primedOfLevel(k); }},
    };
    for (const U& u : fns)
        for (int k : levelValues()) {
            emit("lv %s %d -> %d", u.name, k, u.fn(k));
            STATS.hit(std::string("lv.") + u.name);
        }
}

void binaryLevels(int which) {
    struct Bn { const char* name; int (*fn)(int, int); };
    const Bn fns[] = {
        {"MAX", [](int a, int b) { return MAX(a, b); }},
        {"MDD.topLevel", [](int a, int b) { return MDD_levels::topLevel(a, b); }},
        {"MXD.topLevel", [](int a, int b) { return MXD_levels::topLevel(a, b); }},
        {"MXD.topUnprimed", [](int a, int b) { return MXD_levels::topUnprimed(a, b); }},
        {"isLevelAbove", [](int a, int b) { return int(isLevelAbove(a, b)); }},
    };
    const Bn& b = fns[which];
    std::vector<int> vs = levelValues();
    for (int k1 : vs)
        for (int k2 : vs) {
            emit("lv %s %d %d -> %d", b.name, k1, k2, b.fn(k1, k2));
            STATS.hit(std::string("lv.") + b.name);
        }
}

unsigned randomWord(Rng& r) {
    switch (r.below(6)) {
        case 0: return unsigned(r.below(8));                    // node indices / small handles
        case 1: return unsigned(r.below(1000));
        case 2: return 0xffffffffu - unsigned(r.below(4));      // carries in every addition
        case 3: return 1u << r.below(32);
        default: return unsigned(r.next());
    }
}

void helpers(Rng& r, long n) {
    for (int k = 1; k < 32; k++)
        for (unsigned x : {0u, 1u, 0x80000000u, 0xffffffffu, 0xdeadbeefu, unsigned(r.next())}) {
            emit("hr %u %d -> %u", x, k, HS::rot_(x, k));
            STATS.hit("hr");
        }
    for (long i = 0; i < n; i++) {
        unsigned a = randomWord(r), b = randomWord(r), c = randomWord(r);
        unsigned x = a, y = b, z = c;
        HS::mix_(x, y, z);
        emit("hm mix %u %u %u -> %u %u %u", a, b, c, x, y, z);
        x = a; y = b; z = c;
        HS::final_mix_(x, y, z);
        emit("hm final_mix %u %u %u -> %u %u %u", a, b, c, x, y, z);
        STATS.hit("hm", 2);
    }
}

void stream(Rng& r) {
    // grouping: mostly the shapes the library uses (pairs, pairs + singles), sometimes anything
    int shape = int(r.below(5));
    int ncalls = int(r.below(r.chance(1, 4) ? 40 : 9));
    bool noarg = r.chance(1, 8);          // start() : slot 3
    unsigned init = r.chance(1, 2) ? 0u : randomWord(r);
    std::string spec;
    std::vector<unsigned> ws;
    hash_stream s;
    if (noarg) s.start(); else s.start(init);
    std::string out;
    try {
        for (int i = 0; i < ncalls; i++) {
            int g;
            switch (shape) {
                case 0: g = 1; break;
                case 1: g = 2; break;
                case 2: g = (i % 2 == 0) ? 2 : 1; break;
                case 3: g = 3; break;
                default: g = 1 + int(r.below(3));
            }
            // start() followed by push(a,b,c) leaves slot = 3 for ever (known defect, modelled): keep some, not all
            unsigned w[3];
            for (int j = 0; j < g; j++) { w[j] = randomWord(r); ws.push_back(w[j]); }
            spec += char('0' + g);
            if (g == 1) s.push(w[0]);
            else if (g == 2) s.push(w[0], w[1]);
            else s.push(w[0], w[1], w[2]);
        }
        char buf[32];
        snprintf(buf, sizeof buf, "%u", s.finish());
        out = buf;
    } catch (error& e) {
        out = std::string("throw ") + errName(e);
    }
    if (spec.empty()) spec = ".";
    std::string line = "hs ";
    line += noarg ? std::string("-") : std::to_string(init);
    line += " " + spec;
    for (unsigned w : ws) line += " " + std::to_string(w);
    line += " -> " + out;
    emits(line);
    STATS.hit(noarg ? "hs.start0" : "hs.start");
    STATS.hit("hs.words", long(ws.size()));
    STATS.hit(std::string("hs.shape") + char('0' + shape));
}

// ===================================================================== counter_array histories
struct Watcher : public array_watcher {
    std::string log;
    void expandElementSize(unsigned o, unsigned n) override { log += " e:" + std::to_string(o) + ":" + std::to_string(n); }
    void shrinkElementSize(unsigned o, unsigned n) override { log += " s:" + std::to_string(o) + ":" + std::to_string(n); }
};

struct CaDriver {
    Watcher* w;
    counter_array ca;
    size_t size = 0;
    Rng& r;
    CaDriver(Rng& rr, Watcher* ww) : w(ww), ca(ww), r(rr) {}
    unsigned bits() { return unsigned(ca.entry_bits()); }
    void watched() { if (w) emits("gc watched ->" + (w->log.empty() ? std::string(" -") : w->log)); }
    void expand(size_t n) {
        unsigned before = bits();
        ca.expand(n); if (n > size) size = n;
        emit("gc expand %zu -> 0 %u", n, bits()); STATS.hit("gc.expand");
        if (bits() < before) STATS.hit("gc.narrow." + std::to_string(before) + "to" + std::to_string(bits()) + ".expand");
    }
    void shrink(size_t n) {
        unsigned before = bits();
        bool dirty = false;
        for (size_t i = n; i < size; i++) if (ca.get(i) >= 256) dirty = true;
        ca.shrink(n); if (n < size) size = n;
        emit("gc shrink %zu -> 0 %u", n, bits());
        STATS.hit(dirty ? "gc.shrink.dropsLarge" : "gc.shrink");
        if (bits() < before) STATS.hit("gc.narrow." + std::to_string(before) + "to" + std::to_string(bits()) + ".shrink");
    }
    void get(size_t i) { emit("gc get %zu -> %u %u", i, ca.get(i), bits()); STATS.hit("gc.get"); }
    void swap(size_t i, size_t j) { ca.swap(i, j); emit("gc swap %zu %zu -> 0 %u", i, j, bits()); STATS.hit(i == j ? "gc.swap.same" : "gc.swap"); }
    void noteCross(unsigned before, unsigned after) {
        if (before == 255 && after == 256) STATS.hit("gc.cross.255up");
        if (before == 256 && after == 255) STATS.hit("gc.cross.256down");
        if (before == 65535 && after == 65536) STATS.hit("gc.cross.65535up");
        if (before == 65536 && after == 65535) STATS.hit("gc.cross.65536down");
    }
    unsigned call(int kind, size_t i) {   // 0 inc, 1 dec, 2 izbi, 3 ipad
        unsigned before = ca.get(i), res = 0;
        switch (kind) {
            case 0: ca.increment(i); break;
            case 1: ca.decrement(i); break;
            case 2: res = ca.isZeroBeforeIncrement(i) ? 1 : 0; break;
            default: res = ca.isPositiveAfterDecrement(i) ? 1 : 0; break;
        }
        noteCross(before, ca.get(i));
        return res;
    }
    static const char* kname(int k) { static const char* n[] = {"inc", "dec", "izbi", "ipad"}; return n[k]; }
    void one(int kind, size_t i) {
        unsigned before = bits();
        unsigned res = call(kind, i);
        emit("gc %s %zu -> %u %u", kname(kind), i, res, bits());
        STATS.hit(std::string("gc.") + kname(kind));
        if (bits() > before) STATS.hit("gc.widen." + std::to_string(before) + "to" + std::to_string(bits()));
    }
    void rep(int kind, size_t i, unsigned n) {
        unsigned long sum = 0;
        unsigned before = bits();
        for (unsigned k = 0; k < n; k++) sum += call(kind, i);
        emit("gc rep %u %s %zu -> %lu %u", n, kname(kind), i, sum, bits());
        STATS.hit("gc.rep");
        if (bits() > before) STATS.hit("gc.widen." + std::to_string(before) + "to" + std::to_string(bits()));
    }
    void driveTo(size_t i, unsigned target) {
        unsigned cur = ca.get(i);
        if (cur < target) rep(r.chance(1, 2) ? 0 : 2, i, target - cur);
        else if (cur > target) rep(r.chance(1, 2) ? 1 : 3, i, cur - target);
    }
    void resize() {
        size_t n = size_t(r.below(17));
        if (r.chance(1, 2)) {     // a clean shrink / growth: keep every entry >= 256 inside
            size_t lastLarge = 0;
            for (size_t i = 0; i < size; i++) if (ca.get(i) >= 256) lastLarge = i + 1;
            if (n < lastLarge) n = lastLarge;
        }
        // shrink(0) of a non-empty array is outside the contract (realloc(p, 0): `.error .unmodelled` in the model)
        if (n == 0) n = 1;
        if (n >= size) expand(n == size ? n + 1 : n); else shrink(n);
    }
};

void counterHistory(Rng& r, bool thorough) {
    Watcher w;
    bool withWatcher = r.chance(2, 3);
    emit("gc new %d", withWatcher ? 1 : 0);
    CaDriver d(r, withWatcher ? &w : nullptr);
    d.watched();
    if (r.chance(1, 6)) d.expand(0);          // no-op on the empty array
    d.expand(size_t(r.range(1, 10)));
    int steps = thorough ? r.range(60, 400) : r.range(30, 160);
    static const unsigned edges[] = {0, 1, 2, 254, 255, 256, 257, 65534, 65535, 65536, 65537, 70000};
    for (int s = 0; s < steps; s++) {
        size_t i = size_t(r.below(unsigned(d.size)));
        unsigned x = r.below(100);
        if (x < 10) d.resize();
        else if (x < 20) d.get(i);
        else if (x < 25) d.swap(i, r.chance(1, 5) ? i : size_t(r.below(unsigned(d.size))));
        else if (x < 40) {
            unsigned t = edges[r.chance(3, 4) ? r.below(7) : r.below(12)];
            d.driveTo(i, t);
            d.get(i);
        } else {
            unsigned cur = d.ca.get(i);
            int kind = int(r.below(4));
            if (cur == 0 && (kind == 1 || kind == 3)) kind = r.chance(1, 2) ? 0 : 2;   // in contract: no decrement of zero
            d.one(kind, i);
            if (r.chance(1, 3)) d.get(i);
        }
        if (r.chance(1, 25)) d.watched();
    }
    // final sweep: everything back below a width boundary, then a resize (narrowing back to 8 bits)
    if (r.chance(2, 3)) {
        for (size_t i = 0; i < d.size; i++) { d.driveTo(i, r.chance(1, 2) ? 0 : r.below(256)); d.get(i); }
        if (d.size > 2 && r.chance(1, 2)) d.shrink(1); else if (d.size > 1 && r.chance(1, 2)) d.shrink(d.size - 1); else d.expand(d.size + 1 + r.below(4));
        for (size_t i = 0; i < d.size; i++) d.get(i);
    }
    d.watched();
}


// ===================================================================== node_headers histories
// A real MT forest; the harness keeps a ledger of the references (`own`) and cache marks (`marks`) it holds and never
// leaves the API contract.  After every call the header of EVERY handle is read back from the library.
struct NhObs {
    char cls = 'F'; unsigned long in = 0, cc = 0; int lvl = 0;
    bool operator!=(const NhObs& o) const { return cls != o.cls || in != o.in || cc != o.cc || lvl != o.lvl; }
};

struct NhDriver {
    Rng& r;
    Dom D;
    forest* F = nullptr;
    std::map<node_handle, long> own, marks;
    std::vector<NhObs> shadow;           // last observation per handle (index = handle)
    struct Spec { int lvl; std::vector<node_handle> kids; };
    std::vector<Spec> history;
    explicit NhDriver(Rng& rr) : r(rr) {}

    NhObs observe(node_handle h) const {
        NhObs o;
        o.in = F->getNodeInCount(h);
        o.cc = F->verifCacheCount(h);
        bool act = F->isActiveNode(h);
        o.cls = act ? 'A' : (o.cc > 0 ? 'D' : 'F');
        o.lvl = act ? F->getNodeLevel(h) : 0;
        return o;
    }
    // the handles whose header changed since the last look (shadow updated); handles beyond getLastNode() are free
    std::vector<node_handle> changed() {
        std::vector<node_handle> out;
        node_handle last = F->getLastNode();
        if (size_t(last) + 1 > shadow.size()) shadow.resize(size_t(last) + 1);
        for (node_handle h = 1; h < node_handle(shadow.size()); h++) {
            NhObs o = (h <= last) ? observe(h) : NhObs();
            if (o != shadow[size_t(h)]) { out.push_back(h); shadow[size_t(h)] = o; }
        }
        return out;
    }
    void noteTransition(const NhObs& before, const NhObs& after, bool touched) {
        if (before.cls == 'A' && after.cls == 'F') STATS.hit(touched ? "nh.decide.deleteRecycle" : "nh.cascade.deleteRecycle");
        if (before.cls == 'A' && after.cls == 'D') STATS.hit(touched ? "nh.decide.delete" : "nh.cascade.delete");
        if (before.cls == 'D' && after.cls == 'F') STATS.hit("nh.decide.recycle");
        if (after.cls == 'A' && after.in == 0) STATS.hit("nh.seen.unreachable");
        if (before.cls == 'A' && before.in == 0 && after.in == 1) STATS.hit("nh.decide.revive");
    }
    // after one of the four calls on h: the header of h, then every other changed handle
    void report(const char* op, node_handle h, const std::string& ret) {
        NhObs before = size_t(h) < shadow.size() ? shadow[size_t(h)] : NhObs();
        std::vector<NhObs> old = shadow;
        std::vector<node_handle> ch = changed();
        NhObs o = shadow[size_t(h)];
        emit("nh %s %d -> %s%c %lu %lu", op, h, ret.c_str(), o.cls, o.in, o.cc);
        noteTransition(before, o, true);
        long n = 0;
        for (node_handle c : ch) {
            if (c == h) continue;
            const NhObs& x = shadow[size_t(c)];
            emit("nh also %d -> %c %lu %lu", c, x.cls, x.in, x.cc);
            noteTransition(size_t(c) < old.size() ? old[size_t(c)] : NhObs(), x, false);
            ++n;
        }
        emit("nh end -> %ld", n);
        if (n > 0) STATS.hit("nh.cascade.calls");
        STATS.hit(std::string("nh.") + op);
    }
    void link(node_handle h) { node_handle ret = F->linkNode(h); own[h]++; report("link", h, std::to_string(ret) + " "); }
    void unlink(node_handle h) { F->unlinkNode(h); if (--own[h] == 0) own.erase(h); report("unlink", h, ""); }
    void cache(node_handle h) { F->cacheNode(h); marks[h]++; report("cache", h, ""); }
    void uncache(node_handle h) { F->uncacheNode(h); if (--marks[h] == 0) marks.erase(h); report("uncache", h, ""); }

    bool isActive(node_handle h) const { return h > 0 && h <= F->getLastNode() && F->isActiveNode(h); }
    std::vector<node_handle> activeBelow(int lvl) const {
        std::vector<node_handle> v;
        for (node_handle h = 1; h <= F->getLastNode(); h++) if (F->isActiveNode(h) && F->getNodeLevel(h) < lvl) v.push_back(h);
        return v;
    }
    // createReducedNode is not translated: the children are linked (checked calls), the node is built, and the observed
    // header of every handle it changed is ADOPTED by the acceptor
    void mk(const Spec& sp) {
        for (node_handle c : sp.kids) if (c > 0) link(c);
        unpacked_node* un = unpacked_node::newWritable(F, sp.lvl, FULL_ONLY);
        for (unsigned i = 0; i < sp.kids.size(); i++) un->setFull(i, sp.kids[i]);
        node_handle lastBefore = F->getLastNode();
        std::vector<char> wasActive(size_t(lastBefore) + 1, 0);
        for (node_handle h = 1; h <= lastBefore; h++) wasActive[size_t(h)] = F->isActiveNode(h);
        edge_value ev;
        node_handle res = 0;
        F->createReducedNode(un, ev, res, -1);
        bool allSame = true, allZero = true;
        for (node_handle c : sp.kids) { if (c != sp.kids[0]) allSame = false; if (c != 0) allZero = false; }
        const char* kind = allZero ? "zero" : (allSame && res == sp.kids[0]) ? "red"
            : (res > 0 && res <= lastBefore && wasActive[size_t(res)]) ? "hit" : "new";
        if (!strcmp(kind, "red")) {
            if (sp.kids[0] > 0) { if ((own[sp.kids[0]] -= long(sp.kids.size()) - 1) == 0) own.erase(sp.kids[0]); }
        } else if (strcmp(kind, "zero")) {
            for (node_handle c : sp.kids) if (c > 0) { if (--own[c] == 0) own.erase(c); }
            own[res]++;
            if (!strcmp(kind, "new")) history.push_back(sp);
        }
        for (node_handle h : changed()) {
            const NhObs& o = shadow[size_t(h)];
            emit("nh adopt %d %d %lu %lu", h, o.lvl, o.in, o.cc);
        }
        if (!strcmp(kind, "new")) {
            std::string s = "nh kids " + std::to_string(res);
            for (node_handle c : sp.kids) s += " " + std::to_string(c);
            emits(s);
        }
        STATS.hit(std::string("nh.mk.") + kind);
    }
    Spec randomSpec(int maxTerm) {
        Spec sp;
        sp.lvl = r.range(1, int(D.K()));
        unsigned n = unsigned(D.sizes[size_t(sp.lvl) - 1]);
        std::vector<node_handle> below = activeBelow(sp.lvl);
        for (unsigned i = 0; i < n; i++) {
            if (!below.empty() && r.chance(3, 5)) sp.kids.push_back(r.pick(below));
            else sp.kids.push_back(F->handleForValue(int(r.range(0, maxTerm))));
        }
        return sp;
    }
    bool usable(const Spec& sp) const {
        for (node_handle c : sp.kids) if (c > 0 && !(isActive(c) && F->getNodeLevel(c) < sp.lvl)) return false;
        return true;
    }
    void build(int maxTerm) {
        if (!history.empty() && r.chance(1, 5)) { Spec sp = r.pick(history); if (usable(sp)) { mk(sp); return; } }
        mk(randomSpec(maxTerm));
    }
    template <class M> node_handle pickKey(const M& m) { auto it = m.begin(); std::advance(it, r.below(unsigned(m.size()))); return it->first; }
    void step(int maxTerm) {
        unsigned x = r.below(100);
        std::vector<node_handle> act = activeBelow(1 << 20);
        if (x < 14 || act.empty()) build(maxTerm);
        else if (x < 30) link(r.pick(act));
        else if (x < 62) { if (!own.empty()) unlink(pickKey(own)); }
        else if (x < 80) cache(r.pick(act));
        else { if (!marks.empty()) uncache(pickKey(marks)); }
    }
};

void nodeHeadersHistory(Rng& r, bool thorough, long which) {
    NhDriver d(r);
    unsigned K = unsigned(r.range(2, 4));
    for (unsigned i = 0; i < K; i++) d.D.sizes.push_back(r.range(2, 3));
    d.D.create();
    Kind k; k.rel = false; k.rt = range_type::INTEGER; k.el = edge_labeling::MULTI_TERMINAL; k.rr = reduction_rule::FULLY_REDUCED;
    Pol pol = Pol::random(r);
    pol.del = (which % 2 == 0) ? 2 : int(r.below(2));      // pessimistic / (optimistic | never delete) alternate
    d.F = makeForest(d.D.d, k, pol);
    bool pess = d.F->getPolicies().isPessimistic();
    emit("nh forest %d", pess ? 1 : 0);
    STATS.hit(pess ? "nh.policy.pessimistic" : (d.F->getPolicies().isOptimistic() ? "nh.policy.optimistic" : "nh.policy.never"));
    int maxTerm = r.range(1, 3);
    for (int i = 0, n = r.range(6, 20); i < n; i++) d.build(maxTerm);
    int steps = thorough ? r.range(100, 600) : r.range(60, 260);
    for (int i = 0; i < steps; i++) d.step(maxTerm);
    // release everything in random order: every node must die, every handle must be recycled
    while (!d.own.empty() || !d.marks.empty()) {
        bool u = d.marks.empty() || (!d.own.empty() && r.chance(1, 2));
        if (u) d.unlink(d.pickKey(d.own)); else d.uncache(d.pickKey(d.marks));
    }
    long left = 0;
    for (node_handle h = 1; h <= d.F->getLastNode(); h++) if (d.observe(h).cls != 'F') ++left;
    emit("nh end -> %ld", left);           // nothing may be left (compared with 0 changed handles: the model agrees)
    forest::destroy(d.F);
    d.D.destroy();
}

int run(const Args& A) {
    const long nstreamCases = A.cases > 0 ? A.cases : (A.thorough() ? 500 : 50);
    const long ncaCases = A.thorough() ? 80 : 24;
    const long nnhCases = A.thorough() ? 60 : 16;
    const long ncases = 7 + nstreamCases + ncaCases + nnhCases;
    libInit();
    for (long c = 0; c < ncases; c++) {
        if (!A.selected(c)) continue;
        Rng r(Rng::mix(A.seed, uint64_t(c)));
        beginCase(c);
        if (c == 0) unaryLevels();
        else if (c <= 5) binaryLevels(int(c - 1));
        else if (c == 6) helpers(r, A.thorough() ? 20000 : 2000);
        else if (c < 7 + nstreamCases) for (int i = 0; i < 200; i++) stream(r);
        else if (c < 7 + nstreamCases + ncaCases) counterHistory(r, A.thorough());
        else nodeHeadersHistory(r, A.thorough(), c - (7 + nstreamCases + ncaCases));
        endCase();
    }
    libCleanup();
    return 0;
}
FamilyReg reg("gen", run, "translator validation: level arithmetic, hash_stream, counter_array and node_headers, real functions vs generated Lean");
}  // namespace
