// Family `arith` (C05): element-wise arithmetic, comparison, min/max, distance and user-defined
// operations and the range queries, over every operand/result forest combination the factories
// accept (and some they reject), cold and warm compute tables.
//
// Per case: a random domain (set or relation, non-uniform sizes), three forests of one value kind
// (integer MT, real MT, EV+, EV*) with independently chosen reduction rules and a random aliasing
// pattern, a fourth MT forest for comparison results, two operand tables drawn from scenarios that
// hit the shortcuts of arith_templ.h / compare.cc (equal operands, constant operands, operands that
// skip levels, identity patterns, neutral and absorbing constants) and scenarios that hit none.
// Every applicable operation of the catalogue is run on the operands; the Lean driver recomputes
// every result from Spec.Arith.scalar.
//
// Steering (see NOTES.md FINDINGS): the library decides some invalid or ambiguous scalar cases by a
// shortcut instead of by the scalar rule (x/x with zeros, 0/x with zero divisors, inf-inf, 0*inf,
// EV+ MINUS with an identity-reduced subtrahend forest), ignores zero entries in MAX_RANGE/MIN_RANGE
// and identity-skipped entries in DIST_INC.  By default the family does not run an operation on
// operands of exactly these classes (counted as `steer.*`); `--hidden 1` runs them too.
#include "common.h"
#include <cmath>
using namespace MEDDLY;
using namespace mdh;

namespace {

enum Base { IMT = 0, RMT = 1, EVP = 2, EVT = 3, BMT = 4 };
const char* baseName(Base b) { static const char* n[] = {"imt", "rmt", "evp", "evt", "bmt"}; return n[b]; }

Kind mkKind(bool rel, Base b, reduction_rule rr) {
    Kind k; k.rel = rel; k.rr = rr;
    switch (b) {
        case IMT: k.rt = range_type::INTEGER; k.el = edge_labeling::MULTI_TERMINAL; break;
        case RMT: k.rt = range_type::REAL; k.el = edge_labeling::MULTI_TERMINAL; break;
        case EVP: k.rt = range_type::INTEGER; k.el = edge_labeling::EVPLUS; break;
        case EVT: k.rt = range_type::REAL; k.el = edge_labeling::EVTIMES; break;
        default: k.rt = range_type::BOOLEAN; k.el = edge_labeling::MULTI_TERMINAL; break;
    }
    return k;
}
Val zeroOf(Base b) {
    switch (b) {
        case IMT: return Val::integer(0);
        case EVP: return Val::inf();
        case BMT: return Val::boolean(false);
        default: return Val::real(0.0);
    }
}
bool isIdent(const Kind& k) { return k.rr == reduction_rule::IDENTITY_REDUCED; }

// ------------------------------------------------------------------ operations
typedef binary_factory& (*BinF)();
struct BinOp { const char* name; BinF f; bool cmp; };
const BinOp BINOPS[] = {
    {"PLUS", PLUS, false}, {"MINUS", MINUS, false}, {"MULTIPLY", MULTIPLY, false}, {"DIVIDE", DIVIDE, false},
    {"MODULO", MODULO, false}, {"MAXIMUM", MAXIMUM, false}, {"MINIMUM", MINIMUM, false}, {"DIST_MIN", DIST_MIN, false},
    {"EQUAL", EQUAL, true}, {"NOT_EQUAL", NOT_EQUAL, true}, {"LESS_THAN", LESS_THAN, true},
    {"LESS_THAN_EQUAL", LESS_THAN_EQUAL, true}, {"GREATER_THAN", GREATER_THAN, true},
    {"GREATER_THAN_EQUAL", GREATER_THAN_EQUAL, true}};
const int NBIN = 14;

bool opAppliesTo(const BinOp& o, Base b) {
    std::string n = o.name;
    if (n == "MODULO") return b == IMT || b == EVP;
    if (n == "DIST_MIN") return b == IMT || b == RMT;
    return true;
}

// user-defined maps; identical definitions in lean/MeddlyModel/Spec/Arith.lean (UMap)
void uLin(const rangeval& x, rangeval& y) {
    if (x.isPlusInfinity()) { y = x; return; }
    if (x.isInteger()) y = 2 * long(x) + 1; else y = 2.0 * double(x) + 1.0;
}
void uSq(const rangeval& x, rangeval& y) {
    if (x.isPlusInfinity()) { y = x; return; }
    if (x.isInteger()) y = long(x) * long(x); else y = double(x) * double(x);
}
void uNeg(const rangeval& x, rangeval& y) {
    if (x.isPlusInfinity()) { y = x; return; }
    if (x.isInteger()) y = -long(x); else y = -double(x);
}
void uSat3(const rangeval& x, rangeval& y) {
    if (x.isPlusInfinity()) { y = long(3); return; }
    if (x.isInteger()) y = std::min(long(x), 3L); else y = std::min(double(x), 3.0);
}
bool negOf(const rangeval& x) {
    if (x.isPlusInfinity()) return false;
    return x.isInteger() ? long(x) < 0 : double(x) < 0;
}
void uIsNegB(const rangeval& x, rangeval& y) { y = negOf(x); }
void uIsNegI(const rangeval& x, rangeval& y) { y = long(negOf(x) ? 1 : 0); }
void uIsNegR(const rangeval& x, rangeval& y) { y = double(negOf(x) ? 1.0 : 0.0); }

user_unary_factory& UF(int i) {
    static user_unary_factory f0("lin", uLin), f1("sq", uSq), f2("neg", uNeg), f3("sat3", uSat3),
        f4("isnegB", uIsNegB), f5("isnegI", uIsNegI), f6("isnegR", uIsNegR);
    static user_unary_factory* all[] = {&f0, &f1, &f2, &f3, &f4, &f5, &f6};
    return *all[i];
}

// ------------------------------------------------------------------ values / tables
Val pickValue(Rng& r, Base b) {   // a non-transparent value
    switch (b) {
        case IMT: { static const long p[] = {-3, -2, -1, 1, 2, 3, 5, 7, 1, -1, 2}; return Val::integer(p[r.below(11)]); }
        case RMT: { static const double p[] = {-2.0, -1.0, -0.5, 0.5, 1.0, 1.5, 2.0, 3.0, 4.0, 1.0}; return Val::real(p[r.below(10)]); }
        case EVP: { static const long p[] = {-3, -2, -1, 0, 1, 2, 3, 4, 5, 6, 0, 1}; return Val::integer(p[r.below(12)]); }
        case EVT: { static const double p[] = {0.25, 0.5, 1.0, 2.0, 4.0, -1.0, -2.0, 1.0}; return Val::real(p[r.below(8)]); }
        default: return Val::boolean(true);
    }
}
bool isZeroVal(const Val& v) { return v.t != Val::INF && v.n == 0; }

// assignment digits of table index idx: position p (1-based) -> value
std::vector<int> digitsOf(const Dom& D, bool rel, size_t idx) {
    std::vector<int> d;
    for (unsigned v = 0; v < D.K(); v++) {
        size_t sz = size_t(D.sizes[v]);
        if (rel) { d.push_back(int(idx % sz)); idx /= sz; d.push_back(int(idx % sz)); idx /= sz; }   // primed, unprimed
        else { d.push_back(int(idx % sz)); idx /= sz; }
    }
    return d;
}

struct Scen { int kind; unsigned density; };

// a random table for one operand
std::vector<Val> genTable(Rng& r, const Dom& D, bool rel, Base b, std::string& what) {
    size_t n = D.card(rel);
    std::vector<Val> t(n, zeroOf(b));
    static const unsigned dens[] = {10, 30, 50, 80, 100, 100};
    unsigned d = dens[r.below(6)];
    int sc = r.below(rel ? 10 : 8);
    unsigned npos = rel ? 2 * D.K() : D.K();
    if (sc <= 2) {              // independent entries
        what = "rand" + std::to_string(d);
        for (size_t i = 0; i < n; i++) if (r.below(100) < d) t[i] = pickValue(r, b);
    } else if (sc == 3) {       // constant
        static const int cs[] = {0, 1, -1, 2, 99, 98};
        int c = cs[r.below(6)];
        Val v;
        if (c == 99) v = zeroOf(b);
        else if (c == 98) v = pickValue(r, b);
        else v = (b == IMT || b == EVP) ? Val::integer(c) : Val::real(double(c));
        what = "const" + v.str();
        for (size_t i = 0; i < n; i++) t[i] = v;
    } else if (sc <= 6) {       // depends on a subset of the positions only (skipped levels, terminals met at different levels)
        std::vector<bool> use(npos);
        bool any = false;
        for (unsigned p = 0; p < npos; p++) { use[p] = r.chance(1, 2); any = any || use[p]; }
        if (!any) use[r.below(npos)] = true;
        what = "subset";
        std::map<std::vector<int>, Val> h;
        for (size_t i = 0; i < n; i++) {
            std::vector<int> dg = digitsOf(D, rel, i), key;
            for (unsigned p = 0; p < npos; p++) if (use[p]) key.push_back(dg[p]);
            auto it = h.find(key);
            if (it == h.end()) it = h.insert({key, r.below(100) < d ? pickValue(r, b) : zeroOf(b)}).first;
            t[i] = it->second;
        }
    } else if (sc == 7) {       // few distinct values, dense
        what = "two-valued";
        Val v1 = pickValue(r, b), v2 = r.chance(1, 2) ? pickValue(r, b) : zeroOf(b);
        for (size_t i = 0; i < n; i++) t[i] = r.chance(1, 2) ? v1 : v2;
    } else {                    // relations: identity pattern on a set V of variables, times a function of the rest
        std::vector<bool> inV(D.K());
        bool any = false;
        for (unsigned v = 0; v < D.K(); v++) { inV[v] = r.chance(2, 3); any = any || inV[v]; }
        if (!any) inV[r.below(D.K())] = true;
        what = "identity";
        bool constant = r.chance(1, 2);
        Val cv = r.chance(1, 2) ? ((b == IMT || b == EVP) ? Val::integer(1) : Val::real(1.0)) : pickValue(r, b);
        std::vector<bool> use(npos);
        for (unsigned p = 0; p < npos; p++) use[p] = r.chance(1, 2);
        std::map<std::vector<int>, Val> h;
        for (size_t i = 0; i < n; i++) {
            std::vector<int> dg = digitsOf(D, rel, i), key;
            bool diag = true;
            for (unsigned v = 0; v < D.K(); v++) if (inV[v] && dg[2 * v] != dg[2 * v + 1]) diag = false;
            if (!diag) continue;
            if (constant) { t[i] = cv; continue; }
            for (unsigned p = 0; p < npos; p++) if (use[p] && !(inV[p / 2] && p % 2 == 0)) key.push_back(dg[p]);
            auto it = h.find(key);
            if (it == h.end()) it = h.insert({key, r.below(100) < d ? pickValue(r, b) : zeroOf(b)}).first;
            t[i] = it->second;
        }
    }
    return t;
}

// ------------------------------------------------------------------ classification of operand pairs
// error code of the scalar operation at one pair, or nullptr
const char* scalarErr(const std::string& op, Base b, const Val& x, const Val& y) {
    bool xi = x.t == Val::INF, yi = y.t == Val::INF;
    if (op == "DIVIDE" || op == "MODULO") {
        if (b == EVP) {
            if (yi) return xi ? "INFINITY_DIV_INFINITY" : nullptr;
            return isZeroVal(y) ? "DIVIDE_BY_ZERO" : nullptr;
        }
        return isZeroVal(y) ? "DIVIDE_BY_ZERO" : nullptr;
    }
    if (op == "MINUS" && b == EVP) return yi ? "SUBTRACT_INFINITY" : nullptr;
    return nullptr;
}
struct Cls { enum T { VALUE, ERR, HIDDEN, MIXED } t; std::string code; };

// VALUE: the scalar operation is valid everywhere and no ambiguous pair occurs.
// ERR:   it is invalid somewhere, every invalid pair has the same code, and at least one invalid pair
//        is outside the classes the library decides by a shortcut.
// HIDDEN: only pairs of the shortcut-decided classes are invalid / ambiguous.
Cls classify(const std::string& op, Base b, const Kind& ka, const Kind& kb, const std::vector<Val>& ta,
             const std::vector<Val>& tb) {
    std::set<std::string> codes;
    bool visible = false, hidden = false;
    for (size_t i = 0; i < ta.size(); i++) {
        const Val &x = ta[i], &y = tb[i];
        const char* e = scalarErr(op, b, x, y);
        if (e) {
            codes.insert(e);
            bool hid = (x == y);                                   // x/x, x%x, x-x decided by the equal-operands shortcut or 0/.., inf-..
            if (b == EVP && op == "MINUS" && isIdent(kb) && !isIdent(ka)) hid = true;   // constant-subtrahend shortcut, fb identity-reduced
            if (b == EVP && (op == "DIVIDE" || op == "MODULO") && isIdent(ka) && x.t == Val::INF) hid = true;  // 0-dividend shortcut on an identity pattern
            if (hid) hidden = true; else visible = true;
        } else if (b == EVP && op == "MULTIPLY") {
            if ((x.t == Val::INF && isZeroVal(y)) || (y.t == Val::INF && isZeroVal(x))) hidden = true;   // 0 * inf
        }
    }
    Cls c;
    if (codes.empty()) { c.t = hidden ? Cls::HIDDEN : Cls::VALUE; return c; }
    if (!visible) { c.t = Cls::HIDDEN; return c; }
    if (codes.size() > 1) { c.t = Cls::MIXED; return c; }
    c.t = Cls::ERR; c.code = *codes.begin();
    return c;
}

struct FS { Kind k; Pol p; forest* F = nullptr; std::string name; Base base = IMT; };

// DIST_INC builds malformed nodes or misses entries for every other combination (FINDINGS)
bool distIncSafe(const Kind& arg, const Kind& res) {
    if (isIdent(arg)) return false;
    if (res.rr == reduction_rule::FULLY_REDUCED) return true;
    return arg.rr == reduction_rule::QUASI_REDUCED && res.rr == reduction_rule::QUASI_REDUCED;
}

struct Case {
    const Args& A;
    Rng& r;
    Dom& D;
    bool hiddenToo;
    int serial = 0;
    std::string fresh() { return "R" + std::to_string(serial++); }

    // run one binary operation and print its records; returns true when it produced a value
    bool runBin(const BinOp& o, const dd_edge& a, const dd_edge& b, const FS& fres, const char* an, const char* bn) {
        dd_edge res(fres.F);
        std::string R = fresh();
        emit("resforest %s", fres.name.c_str());
        // every fourth / fifth operation is called with the result edge being (a copy of, then the same object as)
        // one of its operands, as in `apply(PLUS, a, b, b)`: the answer must not depend on that
        int alias = 0;
        if (serial % 4 == 1 && b.getForest() == fres.F) alias = 2;
        else if (serial % 5 == 2 && a.getForest() == fres.F) alias = 1;
        try {
            if (alias == 2) { res = b; apply(o.f, a, res, res); STATS.hit("alias.res-is-arg2"); }
            else if (alias == 1) { res = a; apply(o.f, res, b, res); STATS.hit("alias.res-is-arg1"); }
            else apply(o.f, a, b, res);
        } catch (error& e) {
            emit("err %s %s %s %s %s", R.c_str(), o.name, an, bn, errName(e));
            emit("note thrown-at %s:%u", e.getFile(), e.getLine());
            STATS.hit(std::string("err.") + o.name + "." + errName(e));
            noteThrow(e, fres);
            return false;
        }
        emit("op %s %s %s %s", R.c_str(), o.name, an, bn);
        showResult(R, fres, res);
        STATS.hit(std::string("op.") + o.name);
        return true;
    }
    // `table R F ...`, or `evalfail R CODE` when the result edge cannot even be evaluated
    void showResult(const std::string& R, const FS& fres, const dd_edge& res) {
        try {
            std::string t = tableStr(tableOf(D, res));
            emit("table %s %s %s", R.c_str(), fres.name.c_str(), t.c_str());
        } catch (error& e) {
            emit("evalfail %s %s", R.c_str(), errName(e));
            emit("note evaluate-thrown-at %s:%u", e.getFile(), e.getLine());
            STATS.hit(std::string("evalfail.") + errName(e));
        }
    }
    // an operation that throws in the middle of its recursion leaves the nodes it had built so far
    // referenced (FINDINGS: leak on error): the exact recount of that forest is not requested afterwards
    std::set<forest*> leaky;
    void noteThrow(const error& e, const FS& fres) {
        switch (e.getCode()) {
            case error::DIVIDE_BY_ZERO: case error::SUBTRACT_INFINITY: case error::INFINITY_DIV_INFINITY:
                leaky.insert(fres.F); break;
            default: break;
        }
    }
    void audit(const FS& f) {
        if (leaky.count(f.F) && !hiddenToo) { emit("note audit-skipped %s leak-after-error", f.name.c_str()); STATS.hit("steer.audit-after-error"); return; }
        emitAudit(f.name, f.F, f.k);
    }
};

Base randomBase(Rng& r, bool rel) {
    unsigned x = r.below(100);
    if (x < 35) return IMT;
    if (x < 55) return RMT;
    if (x < 85 || !rel) return EVP;
    return EVT;
}

reduction_rule randomRule(Rng& r, bool rel) {
    unsigned x = r.below(rel ? 3 : 2);
    return x == 0 ? reduction_rule::FULLY_REDUCED : x == 1 ? reduction_rule::QUASI_REDUCED : reduction_rule::IDENTITY_REDUCED;
}

void unchanged(const Dom& D, const dd_edge& a, const dd_edge& b, const FS& fa, const FS& fb) {
    emitTable("A", fa.name, D, a);
    emitTable("B", fb.name, D, b);
    emit("unchanged A");
    emit("unchanged B");
}

// ------------------------------------------------------------------ unsupported / arbitrary triples
void tripleCase(Case& C, bool /*relHint*/) {
    Rng& r = C.r; Dom& D = C.D;
    FS fs[3];
    static const char* nm[] = {"Fa", "Fb", "Fc"};
    bool allRel = r.chance(1, 2);
    for (;;) {
        for (int i = 0; i < 3; i++) {
            bool rel = r.chance(3, 4) ? allRel : !allRel;
            Base b = Base(r.below(5));
            if (b == EVT && !rel) b = RMT;
            fs[i].base = b;
            fs[i].k = mkKind(rel, b, randomRule(r, rel));
            fs[i].name = nm[i];
        }
        // accepted by the library but outside the property: both operands boolean
        if (fs[0].base == BMT && fs[1].base == BMT && fs[0].k.rel == fs[1].k.rel) continue;
        break;
    }
    for (int i = 0; i < 3; i++) {
        fs[i].p = Pol();
        fs[i].F = makeForest(D.d, fs[i].k, fs[i].p);
        emitForest(fs[i].name, fs[i].F, fs[i].k, fs[i].p);
    }
    STATS.hit("case.triple");
    std::string w;
    std::vector<Val> ta = genTable(r, D, fs[0].k.rel, fs[0].base, w), tb = genTable(r, D, fs[1].k.rel, fs[1].base, w);
    if (fs[0].base == BMT) for (auto& v : ta) v = Val::boolean(r.chance(1, 2));
    if (fs[1].base == BMT) for (auto& v : tb) v = Val::boolean(r.chance(1, 2));
    dd_edge a(fs[0].F), b(fs[1].F);
    buildFromTable(D, fs[0].F, fs[0].k, ta, a);
    buildFromTable(D, fs[1].F, fs[1].k, tb, b);
    emit("input A %s", tableStr(ta).c_str());
    emit("input B %s", tableStr(tb).c_str());
    emitTable("A", "Fa", D, a);
    emitTable("B", "Fb", D, b);
    int nops = r.range(2, 5);
    for (int i = 0; i < nops; i++) {
        const BinOp& o = BINOPS[r.below(NBIN)];
        bool sameBase = fs[0].base == fs[1].base && fs[0].k.rel == fs[1].k.rel;
        if (sameBase && ta.size() == tb.size()) {
            Cls c = classify(o.name, fs[0].base, fs[0].k, fs[1].k, ta, tb);
            if ((c.t == Cls::HIDDEN || c.t == Cls::MIXED) && !C.hiddenToo) { STATS.hit("steer.triple"); continue; }
        }
        bool ok = C.runBin(o, a, b, fs[2], "A", "B");
        STATS.hit(ok ? "triple.accepted" : "triple.rejected");
        if (!ok) {
            unchanged(D, a, b, fs[0], fs[1]);
            // one more successful operation in the same forests
            if (fs[0].base != BMT) C.runBin(BINOPS[5], a, a, fs[0], "A", "A");
        }
    }
    // unary operations on arbitrary pairs
    if (fs[0].base == IMT && fs[2].base == IMT && fs[0].k.rel == fs[2].k.rel && !distIncSafe(fs[0].k, fs[2].k) && !C.hiddenToo)
        STATS.hit("steer.DIST_INC.rules");
    else {
        dd_edge res(fs[2].F);
        std::string R = C.fresh();
        emit("resforest Fc");
        bool ok = true;
        try { apply(DIST_INC, a, res); }
        catch (error& e) { ok = false; emit("err %s DIST_INC A %s", R.c_str(), errName(e)); STATS.hit(std::string("err.DIST_INC.") + errName(e)); }
        if (ok) { emit("op %s DIST_INC A", R.c_str()); C.showResult(R, fs[2], res); STATS.hit("triple.distinc.accepted"); }
    }
    for (int which = 0; which < 2; which++) {
        bool wantReal = r.chance(1, 2);
        const char* on = which ? "MIN_RANGE" : "MAX_RANGE";
        std::string R = C.fresh();
        emit("scalar rangetype %s", wantReal ? "double" : "long");
        bool zeroIssue = false;
        if (fs[0].base == IMT || fs[0].base == RMT) {
            bool hasZero = false, anyPos = false, anyNeg = false;
            for (auto& v : ta) { if (isZeroVal(v)) hasZero = true; else if (v.n > 0) anyPos = true; else anyNeg = true; }
            zeroIssue = hasZero && (anyPos || anyNeg) && (which ? !anyNeg : !anyPos);
        }
        if (zeroIssue && !C.hiddenToo) { STATS.hit("steer.range-zero"); continue; }
        try {
            if (wantReal) { double v = 0; if (which) apply(MIN_RANGE, a, v); else apply(MAX_RANGE, a, v);
                emit("op %s %s A", R.c_str(), on); emit("scalarres %s %s", R.c_str(), Val::real(v).str().c_str()); }
            else { long v = 0; if (which) apply(MIN_RANGE, a, v); else apply(MAX_RANGE, a, v);
                emit("op %s %s A", R.c_str(), on); emit("scalarres %s %ld", R.c_str(), v); }
            STATS.hit("triple.range.accepted");
        } catch (error& e) { emit("err %s %s A %s", R.c_str(), on, errName(e)); STATS.hit(std::string("err.") + on + "." + errName(e)); }
    }
    unchanged(D, a, b, fs[0], fs[1]);
    C.audit(fs[2]);
    C.audit(fs[0]);
    endCase();
    a.detach(); b.detach();
    for (int i = 0; i < 3; i++) forest::destroy(fs[i].F);
}

// ------------------------------------------------------------------ the main case
void mainCase(Case& C, bool rel) {
    Rng& r = C.r; Dom& D = C.D;
    Base base = randomBase(r, rel);
    if (C.A.get("base") != "") {
        std::string bs = C.A.get("base");
        base = bs == "imt" ? IMT : bs == "rmt" ? RMT : bs == "evp" ? EVP : EVT;
        if (base == EVT && !rel) base = RMT;
    }
    FS fs[4];   // a, b, c (arithmetic result), d (comparison result)
    int alias = r.below(8);   // 0,6,7: all distinct, 1: a=b, 2: a=c, 3: b=c, 4: all same, 5: all distinct, same rule
    reduction_rule same = randomRule(r, rel);
    static const char* nm[] = {"Fa", "Fb", "Fc", "Fd"};
    for (int i = 0; i < 3; i++) {
        fs[i].base = base;
        fs[i].k = mkKind(rel, base, alias == 5 ? same : randomRule(r, rel));
        fs[i].p = r.chance(1, 3) ? Pol::random(r) : Pol();
        fs[i].name = nm[i];
    }
    auto mk = [&](int i) { fs[i].F = makeForest(D.d, fs[i].k, fs[i].p); };
    mk(0);
    if (alias == 1 || alias == 4) { fs[1] = fs[0]; fs[1].name = "Fb"; } else mk(1);
    if (alias == 2 || alias == 4) { fs[2] = fs[0]; fs[2].name = "Fc"; }
    else if (alias == 3) { fs[2] = fs[1]; fs[2].name = "Fc"; }
    else mk(2);
    // comparison result: multi-terminal, any range; sometimes one of the operand forests
    {
        Base db = Base(r.pick(std::vector<int>{IMT, RMT, BMT}));
        fs[3].base = db;
        fs[3].k = mkKind(rel, db, randomRule(r, rel));
        fs[3].p = Pol();
        fs[3].name = "Fd";
        if ((base == IMT || base == RMT) && r.chance(1, 4)) { fs[3] = fs[r.below(3)]; fs[3].name = "Fd"; }
        else fs[3].F = makeForest(D.d, fs[3].k, fs[3].p);
    }
    for (int i = 0; i < 4; i++) emitForest(fs[i].name, fs[i].F, fs[i].k, fs[i].p);
    STATS.hit(std::string("base.") + baseName(base) + (rel ? ".rel" : ".set"));
    STATS.hit("alias." + std::to_string(alias));
    STATS.hit(std::string("rules.") + fs[0].k.str().substr(fs[0].k.str().rfind(' ') + 1) + "-" +
              fs[1].k.str().substr(fs[1].k.str().rfind(' ') + 1) + "-" + fs[2].k.str().substr(fs[2].k.str().rfind(' ') + 1));

    // ---- operand tables
    std::string wa, wb;
    std::vector<Val> ta = genTable(r, D, rel, base, wa), tb = genTable(r, D, rel, base, wb);
    unsigned relate = r.below(16);
    if (relate < 3 || ((alias == 1 || alias == 4) && relate < 7)) { tb = ta; wb = "equalA"; }
    else if (relate == 3) { tb = ta; tb[r.below(unsigned(tb.size()))] = pickValue(r, base); wb = "nearA"; }
    // divisor / subtrahend preparation
    bool fill = r.chance(3, 5);
    bool planted = false;
    if (fill) {
        for (auto& v : tb) while (isZeroVal(v) || v.t == Val::INF) v = pickValue(r, base);
        wb += "+nz";
        if (r.chance(1, 4)) {
            // plant one invalid divisor / subtrahend where the other operand is finite and non-zero
            std::vector<size_t> cand;
            for (size_t i = 0; i < ta.size(); i++) if (ta[i].t != Val::INF && !isZeroVal(ta[i])) cand.push_back(i);
            if (!cand.empty()) {
                size_t at = cand[r.below(unsigned(cand.size()))];
                tb[at] = (base == EVP && r.chance(1, 2)) ? Val::inf() : (base == IMT || base == EVP) ? Val::integer(0) : Val::real(0.0);
                planted = true; wb += "+plant";
            }
        }
    }
    auto alpha = [](const std::string& s) { size_t i = 0; while (i < s.size() && isalpha((unsigned char) s[i])) i++; return s.substr(0, i); };
    STATS.hit("scenA." + alpha(wa));
    STATS.hit("scenB." + alpha(wb));
    if (planted) STATS.hit("scen.planted");
    emit("note scenario A=%s B=%s", wa.c_str(), wb.c_str());

    dd_edge a(fs[0].F), b(fs[1].F);
    buildFromTable(D, fs[0].F, fs[0].k, ta, a);
    buildFromTable(D, fs[1].F, fs[1].k, tb, b);
    emit("input A %s", tableStr(ta).c_str());
    emit("input B %s", tableStr(tb).c_str());
    emitTable("A", "Fa", D, a);
    emitTable("B", "Fb", D, b);
    if (fs[0].F == fs[1].F && a == b) STATS.hit("operands.identical-edges");
    if (a.getNode() <= 0) STATS.hit("operands.A-terminal");
    if (b.getNode() <= 0) STATS.hit("operands.B-terminal");
    fflush(stdout);

    // ---- the operation list of this case
    std::vector<int> ops;
    for (int i = 0; i < NBIN; i++) if (opAppliesTo(BINOPS[i], base) && r.chance(BINOPS[i].cmp ? 1 : 4, BINOPS[i].cmp ? 2 : 5)) ops.push_back(i);
    for (size_t i = ops.size(); i > 1; i--) std::swap(ops[i - 1], ops[r.below(unsigned(i))]);
    int umaps[2] = {int(r.below(4)), int(r.below(4))};
    bool predToD = r.chance(1, 2);

    std::vector<std::pair<int, int>> errOps;      // (operation, swapped) whose scalar operation is invalid somewhere
    int rounds = r.chance(1, 2) ? 2 : 1;
    for (int round = 0; round < rounds; round++) {
        STATS.hit(round ? "round.warm" : "round.cold");
        for (int oi : ops) {
            const BinOp& o = BINOPS[oi];
            const FS& fres = o.cmp ? fs[3] : fs[2];
            // operand order matters for the non-commutative ones: also B op A now and then
            for (int sw = 0; sw < 2; sw++) {
                if (sw == 1 && !r.chance(1, 5)) break;
                Cls c = sw ? classify(o.name, base, fs[1].k, fs[0].k, tb, ta) : classify(o.name, base, fs[0].k, fs[1].k, ta, tb);
                if ((c.t == Cls::HIDDEN || c.t == Cls::MIXED) && !C.hiddenToo) {
                    if (round == 0) STATS.hit(std::string("steer.") + o.name + (c.t == Cls::HIDDEN ? ".shortcut-class" : ".mixed-codes"));
                    continue;
                }
                if (c.t == Cls::ERR && !C.hiddenToo) {       // error path: after the audit (see below)
                    if (round == 0) errOps.push_back({oi, sw});
                    continue;
                }
                STATS.hit(std::string("path.value.") + o.name);
                if (sw) { C.runBin(o, b, a, fres, "B", "A"); STATS.hit("swapped"); }
                else C.runBin(o, a, b, fres, "A", "B");
            }
        }
        // ---- unary operations on A
        if (base == IMT) {
            if (!distIncSafe(fs[0].k, fs[2].k) && !C.hiddenToo) STATS.hit("steer.DIST_INC.rules");
            else {
                dd_edge res(fs[2].F);
                std::string R = C.fresh();
                emit("resforest Fc");
                bool ok = true;
                try { apply(DIST_INC, a, res); }
                catch (error& e) { ok = false; emit("err %s DIST_INC A %s", R.c_str(), errName(e)); STATS.hit(std::string("err.DIST_INC.") + errName(e)); }
                if (ok) { emit("op %s DIST_INC A", R.c_str()); C.showResult(R, fs[2], res); STATS.hit("op.DIST_INC"); }
            }
        }
        for (int u = 0; u < 2; u++) {
            // same-kind map into Fc, or the predicate into the MT forest Fd
            bool pred = (u == 1) && predToD;
            const FS& fres = pred ? fs[3] : fs[2];
            int mi = pred ? (fs[3].base == BMT ? 4 : fs[3].base == IMT ? 5 : 6) : umaps[u];
            static const char* mnames[] = {"lin", "sq", "neg", "sat3", "isneg", "isneg", "isneg"};
            if (!pred && base == RMT && mi == 1) {
                // squares of the real pool stay exact in float; nothing to steer
            }
            dd_edge res(fres.F);
            std::string R = C.fresh();
            emit("resforest %s", fres.name.c_str());
            emit("scalar umap %s", mnames[mi]);
            bool ok = true;
            try { apply(UF(mi), a, res); }
            catch (error& e) { ok = false; emit("err %s USER_UNARY A %s", R.c_str(), errName(e)); emit("note thrown-at %s:%u", e.getFile(), e.getLine());
                  STATS.hit(std::string("err.USER_UNARY.") + errName(e)); }
            if (ok) { emit("op %s USER_UNARY A", R.c_str()); C.showResult(R, fres, res); STATS.hit(std::string("op.USER_UNARY.") + mnames[mi]); }
        }
        for (int which = 0; which < 2; which++) {
            const char* on = which ? "MIN_RANGE" : "MAX_RANGE";
            if ((base == EVP || base == EVT) && !r.chance(1, 6)) continue;
            bool wantReal = (base == RMT || base == EVT);
            if (r.chance(1, 10)) wantReal = !wantReal;          // wrong C type: TYPE_MISMATCH (NOT_IMPLEMENTED for EV forests)
            bool zeroIssue = false;
            if (base == IMT || base == RMT) {
                bool hasZero = false, anyPos = false, anyNeg = false;
                for (auto& v : ta) { if (isZeroVal(v)) hasZero = true; else if (v.n > 0) anyPos = true; else anyNeg = true; }
                zeroIssue = hasZero && (anyPos || anyNeg) && (which ? !anyNeg : !anyPos);
            }
            if (zeroIssue && !C.hiddenToo) { STATS.hit(std::string("steer.") + on + ".zero-ignored"); continue; }
            std::string R = C.fresh();
            emit("scalar rangetype %s", wantReal ? "double" : "long");
            try {
                if (wantReal) { double v = 0; if (which) apply(MIN_RANGE, a, v); else apply(MAX_RANGE, a, v);
                    emit("op %s %s A", R.c_str(), on); emit("scalarres %s %s", R.c_str(), Val::real(v).str().c_str()); }
                else { long v = 0; if (which) apply(MIN_RANGE, a, v); else apply(MAX_RANGE, a, v);
                    emit("op %s %s A", R.c_str(), on); emit("scalarres %s %ld", R.c_str(), v); }
                STATS.hit(std::string("op.") + on);
            } catch (error& e) { emit("err %s %s A %s", R.c_str(), on, errName(e)); STATS.hit(std::string("err.") + on + "." + errName(e)); }
        }
        unchanged(D, a, b, fs[0], fs[1]);
        if (round + 1 < rounds) {
            // unrelated work in the same forests: other functions, other operations, sometimes a cache flush
            int junk = r.range(1, 4);
            for (int j = 0; j < junk; j++) {
                std::string w;
                dd_edge x(fs[0].F), y(fs[1].F), z(fs[2].F);
                buildFromTable(D, fs[0].F, fs[0].k, genTable(r, D, rel, base, w), x);
                buildFromTable(D, fs[1].F, fs[1].k, genTable(r, D, rel, base, w), y);
                try { apply(BINOPS[r.chance(1, 2) ? 0 : (r.chance(1, 2) ? 5 : 6)].f, x, y, z); apply(BINOPS[2].f, x, b, z); } catch (error&) { STATS.hit("junk.error"); }
            }
            if (r.chance(1, 4)) { for (int i = 0; i < 4; i++) fs[i].F->removeAllComputeTableEntries(); STATS.hit("churn.clearCT"); }
        }
    }
    {
        std::set<forest*> seen;
        for (int i = 3; i >= 0; i--) if (seen.insert(fs[i].F).second) C.audit(fs[i]);
    }
    // ---- error path: the call must raise the documented code, leave the operands alone, and the
    //      forests must stay usable; twice (the second time the compute table holds the sub-results
    //      of the aborted first attempt)
    for (auto& eo : errOps) {
        const BinOp& o = BINOPS[eo.first];
        const FS& fres = o.cmp ? fs[3] : fs[2];
        for (int rep = 0; rep < 2; rep++) {
            STATS.hit(std::string("path.error.") + o.name);
            bool ok = eo.second ? C.runBin(o, b, a, fres, "B", "A") : C.runBin(o, a, b, fres, "A", "B");
            if (ok) STATS.hit("path.error.unexpected-value");
            unchanged(D, a, b, fs[0], fs[1]);
            C.runBin(BINOPS[rep ? 0 : 5], a, b, fs[2], "A", "B");   // MAXIMUM / PLUS in the same forests
        }
    }
    if (C.hiddenToo && !errOps.empty()) {
        std::set<forest*> seen;
        for (int i = 3; i >= 0; i--) if (seen.insert(fs[i].F).second) C.audit(fs[i]);
    }
    endCase();
    a.detach(); b.detach();
    std::set<forest*> seen;
    for (int i = 0; i < 4; i++) if (seen.insert(fs[i].F).second) forest::destroy(fs[i].F);
}

// ------------------------------------------------------------------ probes: minimal inputs of the FINDINGS
// `--probe 1` replaces the random cases by these fixed ones; each reproduces one finding of NOTES.md
// as a DIFF of the driver (so a known_findings entry can name it).
std::vector<Val> ints(std::initializer_list<long> l, std::initializer_list<int> infAt = {}) {
    std::vector<Val> t;
    for (long x : l) t.push_back(Val::integer(x));
    for (int i : infAt) t[size_t(i)] = Val::inf();
    return t;
}
struct Probe {
    const char* name; bool rel; std::vector<int> dom; Base base;
    reduction_rule ra, rb, rc; bool sameAB;
    std::vector<Val> ta, tb; const char* op;   // binary op name, or DIST_INC / MAX_RANGE / MIN_RANGE
    bool auditAfter;
};
int runProbes(const Args& A) {
    const reduction_rule FU = reduction_rule::FULLY_REDUCED, QU = reduction_rule::QUASI_REDUCED, ID = reduction_rule::IDENTITY_REDUCED;
    std::vector<Probe> P = {
        {"min-range-ignores-zero", false, {2, 2}, IMT, FU, FU, FU, false, ints({5, 0, 0, 3}), {}, "MIN_RANGE", false},
        {"max-range-ignores-zero", false, {2, 2}, IMT, FU, FU, FU, false, ints({-5, 0, 0, -3}), {}, "MAX_RANGE", false},
        {"distinc-identity-arg", true, {2}, IMT, ID, FU, FU, false, ints({4, 0, 0, 4}), {}, "DIST_INC", false},
        {"distinc-malformed-quasi-result", false, {2, 2}, IMT, FU, FU, QU, false, ints({1, 2, 1, 2}), {}, "DIST_INC", true},
        {"distinc-unevaluable-ident-result", true, {2}, IMT, QU, FU, ID, false, ints({-2, 1, -2, 1}), {}, "DIST_INC", false},
        {"div-equal-operands-with-zero", false, {2, 2}, IMT, FU, FU, FU, true, ints({1, 0, 3, 4}), ints({1, 0, 3, 4}), "DIVIDE", false},
        {"div-zero-dividend-hides-zero-divisor", false, {2, 2}, IMT, FU, FU, FU, false, ints({0, 0, 0, 0}), ints({1, 0, 3, 4}), "DIVIDE", false},
        {"mod-equal-operands-with-zero", false, {2, 2}, IMT, FU, FU, FU, true, ints({1, 0, 3, 4}), ints({1, 0, 3, 4}), "MODULO", false},
        {"evp-minus-equal-operands-with-inf", false, {2, 2}, EVP, FU, FU, FU, true, ints({1, 0, 3, 4}, {1}), ints({1, 0, 3, 4}, {1}), "MINUS", false},
        {"evp-minus-inf-minus-inf", false, {2, 2}, EVP, FU, FU, FU, false, ints({0, 0, 3, 4}, {0, 1}), ints({1, 0, 3, 4}, {1}), "MINUS", false},
        {"evp-minus-identity-subtrahend", true, {2}, EVP, FU, ID, FU, false, ints({4, 4, 4, 4}), ints({1, 0, 0, 1}, {1, 2}), "MINUS", false},
        {"evp-mult-zero-times-inf", false, {2, 2}, EVP, FU, FU, FU, false, ints({0, 0, 0, 0}), ints({2, 0, 1, 2}, {1}), "MULTIPLY", false},
        {"evp-mod-inf-mod-inf", false, {2, 2}, EVP, FU, FU, FU, false, ints({7, 0, 0, -7}, {1}), ints({0, 0, 0, 0}, {0, 1, 2, 3}), "MODULO", false},
        {"leak-after-divide-by-zero", false, {2, 2, 2}, IMT, FU, FU, FU, false, ints({1, 2, 3, 4, 5, 6, 7, 8}), ints({1, 2, 1, 2, 1, 2, 1, 0}), "DIVIDE", true},
    };
    long c = 900000;          // probe cases are numbered 900000.. so that a known-finding pattern can name them
    for (auto& p : P) {
        long me = c++;
        if (!A.selected(me)) continue;
        Rng r(Rng::mix(A.seed, uint64_t(me)));
        Dom D; D.sizes = p.dom; D.create();
        beginCase(me);
        emits(D.str());
        emit("note probe %s", p.name);
        FS fs[3];
        static const char* nm[] = {"Fa", "Fb", "Fc"};
        reduction_rule rr[3] = {p.ra, p.rb, p.rc};
        for (int i = 0; i < 3; i++) { fs[i].base = p.base; fs[i].k = mkKind(p.rel, p.base, rr[i]); fs[i].name = nm[i]; fs[i].p = Pol(); }
        fs[0].F = makeForest(D.d, fs[0].k, fs[0].p);
        if (p.sameAB) { fs[1] = fs[0]; fs[1].name = "Fb"; fs[2] = fs[0]; fs[2].name = "Fc"; }
        else { fs[1].F = makeForest(D.d, fs[1].k, fs[1].p); fs[2].F = makeForest(D.d, fs[2].k, fs[2].p); }
        for (int i = 0; i < 3; i++) emitForest(fs[i].name, fs[i].F, fs[i].k, fs[i].p);
        Case C{A, r, D, true, 0, {}};
        dd_edge a(fs[0].F), b(fs[1].F);
        buildFromTable(D, fs[0].F, fs[0].k, p.ta, a);
        emit("input A %s", tableStr(p.ta).c_str());
        emitTable("A", "Fa", D, a);
        std::string op = p.op;
        if (op == "DIST_INC") {
            dd_edge res(fs[2].F);
            emit("resforest Fc");
            apply(DIST_INC, a, res);
            emit("op R0 DIST_INC A");
            C.showResult("R0", fs[2], res);
            if (p.auditAfter) emitAudit("Fc", fs[2].F, fs[2].k);
        } else if (op == "MAX_RANGE" || op == "MIN_RANGE") {
            long v = 0;
            emit("scalar rangetype long");
            if (op == "MAX_RANGE") apply(MAX_RANGE, a, v); else apply(MIN_RANGE, a, v);
            emit("op R0 %s A", op.c_str());
            emit("scalarres R0 %ld", v);
        } else {
            buildFromTable(D, fs[1].F, fs[1].k, p.tb, b);
            emit("input B %s", tableStr(p.tb).c_str());
            emitTable("B", "Fb", D, b);
            for (int i = 0; i < NBIN; i++) if (op == BINOPS[i].name) C.runBin(BINOPS[i], a, b, fs[2], "A", "B");
            if (p.auditAfter) emitAudit("Fc", fs[2].F, fs[2].k);
        }
        STATS.hit(std::string("probe.") + p.name);
        endCase();
        a.detach(); b.detach();
        std::set<forest*> seen;
        for (int i = 0; i < 3; i++) if (seen.insert(fs[i].F).second) forest::destroy(fs[i].F);
        D.destroy();
    }
    return 0;
}

// ------------------------------------------------------------------ exhaustive sweep of the support table
// every operation x every (operand, operand, result) kind triple (9 kinds: MT bool/int/real and EV+ for
// sets and relations, EV* for relations; fully reduced; domain (2)); operands without zeros / infinities.
void sweepCase(const Args& A, long caseNo) {
    Rng r(Rng::mix(A.seed, uint64_t(caseNo)));
    Dom D; D.sizes = {2}; D.create();
    beginCase(caseNo);
    emits(D.str());
    emit("note support-table sweep");
    std::vector<FS> fs;
    for (int rel = 0; rel < 2; rel++)
        for (Base b : {BMT, IMT, RMT, EVP, EVT}) {
            if (b == EVT && !rel) continue;
            FS f; f.base = b; f.k = mkKind(rel != 0, b, reduction_rule::FULLY_REDUCED); f.p = Pol();
            f.name = "K" + std::to_string(fs.size());
            f.F = makeForest(D.d, f.k, f.p);
            emitForest(f.name, f.F, f.k, f.p);
            fs.push_back(f);
        }
    std::vector<dd_edge> ops;
    for (size_t i = 0; i < fs.size(); i++) {
        size_t n = D.card(fs[i].k.rel);
        std::vector<Val> t(n);
        for (size_t j = 0; j < n; j++) {
            long v = (j == 0) ? 3 : 2;
            t[j] = fs[i].base == BMT ? Val::boolean(j != 1) : (fs[i].base == IMT || fs[i].base == EVP) ? Val::integer(v) : Val::real(double(v));
        }
        dd_edge e(fs[i].F);
        buildFromTable(D, fs[i].F, fs[i].k, t, e);
        std::string nm = "A" + std::to_string(i);
        emit("input %s %s", nm.c_str(), tableStr(t).c_str());
        emitTable(nm, fs[i].name, D, e);
        ops.push_back(e);
    }
    Case C{A, r, D, false, 0, {}};
    for (int oi = 0; oi < NBIN; oi++)
        for (size_t a = 0; a < fs.size(); a++)
            for (size_t b = 0; b < fs.size(); b++) {
                if (fs[a].base == BMT && fs[b].base == BMT && fs[a].k.rel == fs[b].k.rel) continue;   // outside the property
                for (size_t c = 0; c < fs.size(); c++) {
                    bool ok = C.runBin(BINOPS[oi], ops[a], ops[b], fs[c], ("A" + std::to_string(a)).c_str(), ("A" + std::to_string(b)).c_str());
                    STATS.hit(ok ? "sweep.accepted" : "sweep.rejected");
                }
            }
    for (size_t a = 0; a < fs.size(); a++)
        for (size_t c = 0; c < fs.size(); c++) {
            dd_edge res(fs[c].F);
            std::string R = C.fresh(), an = "A" + std::to_string(a);
            emit("resforest %s", fs[c].name.c_str());
            bool ok = true;
            try { apply(DIST_INC, ops[a], res); }
            catch (error& e) { ok = false; emit("err %s DIST_INC %s %s", R.c_str(), an.c_str(), errName(e)); }
            if (ok) { emit("op %s DIST_INC %s", R.c_str(), an.c_str()); C.showResult(R, fs[c], res); }
            STATS.hit(ok ? "sweep.accepted" : "sweep.rejected");
        }
    for (size_t a = 0; a < fs.size(); a++)
        for (int which = 0; which < 2; which++)
            for (int wantReal = 0; wantReal < 2; wantReal++) {
                const char* on = which ? "MIN_RANGE" : "MAX_RANGE";
                std::string R = C.fresh(), an = "A" + std::to_string(a);
                emit("scalar rangetype %s", wantReal ? "double" : "long");
                try {
                    if (wantReal) { double v = 0; if (which) apply(MIN_RANGE, ops[a], v); else apply(MAX_RANGE, ops[a], v);
                        emit("op %s %s %s", R.c_str(), on, an.c_str()); emit("scalarres %s %s", R.c_str(), Val::real(v).str().c_str()); }
                    else { long v = 0; if (which) apply(MIN_RANGE, ops[a], v); else apply(MAX_RANGE, ops[a], v);
                        emit("op %s %s %s", R.c_str(), on, an.c_str()); emit("scalarres %s %ld", R.c_str(), v); }
                    STATS.hit("sweep.accepted");
                } catch (error& e) { emit("err %s %s %s %s", R.c_str(), on, an.c_str(), errName(e)); STATS.hit("sweep.rejected"); }
            }
    endCase();
    for (auto& e : ops) e.detach();
    for (auto& f : fs) forest::destroy(f.F);
    D.destroy();
}

int run(const Args& A) {
    libInit();
    if (A.getl("probe", 0)) { int rc = runProbes(A); libCleanup(); return rc; }
    long ncases = A.cases > 0 ? A.cases : (A.thorough() ? 3000 : 1200);
    bool hiddenToo = A.getl("hidden", 0) != 0;
    for (long c = 0; c < ncases; c++) {
        if (!A.selected(c)) continue;
        Rng r(Rng::mix(A.seed, uint64_t(c)));
        bool rel = r.chance(1, 2);
        Dom D = randomDom(r, 1, rel ? (A.thorough() ? 3 : 2) : 4, A.thorough() ? 4 : 3, rel ? (A.thorough() ? 1300 : 330) : 260, rel);
        D.create();
        beginCase(c);
        emits(D.str());
        Case C{A, r, D, hiddenToo, 0, {}};
        if (r.below(100) < 10) tripleCase(C, rel);
        else mainCase(C, rel);
        D.destroy();
    }
    if (A.selected(ncases)) sweepCase(A, ncases);     // one exhaustive case after the random ones
    libCleanup();
    return 0;
}
FamilyReg reg("arith", run, "C05 element-wise arithmetic / comparison / min-max / user maps / range queries");
}  // namespace
