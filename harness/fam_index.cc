// Family `index` (C15): CONVERT_TO_INDEX_SET, evaluate, getElement, getIndexSetCardinality.
//
// Exhaustive core: ALL subsets of the domains (2), (2,2), (3,2), (2,2,2), each from a fully- and a
// quasi-reduced MT-bool source forest (cases 1..8, every subset of one domain inside one case so that
// the conversion's compute table and the unique table are warm); then random larger domains.
//
// Records added (handled by lean/Driver/P_Index.lean; `iter/visit/endvisit/card` by P_Iter.lean):
//   op <X> CONVERT_TO_INDEX_SET <S>        generic `op`; specification = rank among the members of S
//   elem <X> <i> -> <d_top> ... <d_1>      getElement(i) returned true with this minterm
//   elem <X> <i> -> none                   getElement(i) returned false
//   elem <X> <i> -> crash <how>            (probe only) the call killed the forked child process
//   hdr <forest> <child> <cardinality>     getIndexSetCardinality of a node (or terminal) of the index forest,
//                                          recounted by the acceptor on the last dump of <forest>
//   hdrx <X> <cardinality>                 getIndexSetCardinality of the root of edge X = number of members
//   modelidx <X> <S> <forest> <rootchild>  asks the acceptor to run the Lean model (toIndex, evalIX, getElement)
//                                          on the unfolded dump of S's root and compare with X's table
//
// Known trigger F2: getElement(i >= 0) on the index set of the EMPTY set dereferences the terminal root.
// Case 0 probes exactly that call in a forked child (`note known-trigger F2`).  While the probe crashes,
// the other cases steer away from it (only i = -1 is asked on an empty index set); once the probe
// survives (defect repaired) every case asks the full range again.  `--f2 1` forces the in-process calls.
#include "common.h"
#include <sys/wait.h>
#include <unistd.h>
#include <fcntl.h>
using namespace MEDDLY;
using namespace mdh;

namespace {

Kind srcKind(reduction_rule rr) {
    Kind k;
    k.rel = false; k.rt = range_type::BOOLEAN; k.el = edge_labeling::MULTI_TERMINAL; k.rr = rr;
    return k;
}
Kind idxKind(reduction_rule rr) {
    Kind k;
    k.rel = false; k.rt = range_type::INTEGER; k.el = edge_labeling::INDEX_SET; k.rr = rr;
    return k;
}

bool steerF2 = true;

// forked probe of the known trigger; returns true when the call survived
bool probeF2(forest* F, forest* G, const Dom& D) {
    dd_edge s(F), x(G);
    std::vector<Val> t(D.card(false), Val::boolean(false));
    buildFromTable(D, F, srcKind(reduction_rule::FULLY_REDUCED), t, s);
    emit("input S0 %s", tableStr(t).c_str());
    emitTable("S0", "F", D, s);
    apply(CONVERT_TO_INDEX_SET, s, x);
    emit("op X0 CONVERT_TO_INDEX_SET S0");
    emitTable("X0", "G", D, x);
    emit("note known-trigger F2 getElement(0) on the index set of the empty set, root %s", edgeStr(x, idxKind(reduction_rule::FULLY_REDUCED)).c_str());
    fflush(stdout);
    fflush(stderr);
    pid_t pid = fork();
    if (pid == 0) {
        // child: no output, only the exit status
        int devnull = open("/dev/null", 1);
        if (devnull >= 0) { dup2(devnull, 2); }
        minterm m(G);
        bool ok = false;
        try { ok = x.getElement(0, m); } catch (...) { _exit(12); }
        _exit(ok ? 10 : 11);
    }
    int status = 0;
    waitpid(pid, &status, 0);
    if (WIFEXITED(status) && WEXITSTATUS(status) == 11) { emit("elem X0 0 -> none"); STATS.hit("f2.probe.survived"); return true; }
    if (WIFEXITED(status) && WEXITSTATUS(status) == 10) { emit("elem X0 0 -> found"); return true; }
    if (WIFSIGNALED(status)) emit("elem X0 0 -> crash signal=%d getElement-on-empty-index-set", WTERMSIG(status));
    else emit("elem X0 0 -> crash exit=%d getElement-on-empty-index-set", WEXITSTATUS(status));
    STATS.hit("f2.probe.crashed");
    return false;
}

struct Ctx {
    Dom D;
    Kind ks, kx;
    forest* F = nullptr;
    forest* G = nullptr;
    int serial = 0;
};

// convert one set and observe everything about the result
void oneSet(Ctx& C, const std::vector<Val>& t, bool audit, bool iterate) {
    std::string sn = "S" + std::to_string(C.serial), xn = "X" + std::to_string(C.serial);
    ++C.serial;
    dd_edge s(C.F), x(C.G);
    buildFromTable(C.D, C.F, C.ks, t, s);
    emit("input %s %s", sn.c_str(), tableStr(t).c_str());
    emitTable(sn, "F", C.D, s);
    apply(CONVERT_TO_INDEX_SET, s, x);
    emit("op %s CONVERT_TO_INDEX_SET %s", xn.c_str(), sn.c_str());
    emitTable(xn, "G", C.D, x);
    long n = 0;
    for (auto& v : t) if (v.n) ++n;
    STATS.hit(n == 0 ? "set.empty" : (size_t(n) == t.size() ? "set.full" : "set.proper"));
    // getElement for i in -1 .. n+1
    minterm m(C.G);
    unsigned K = C.D.K();
    for (long i = -1; i <= n + 1; i++) {
        if (n == 0 && i >= 0 && steerF2) { STATS.hit("f2.steered"); continue; }
        for (unsigned k = 1; k <= K; k++) m.from(k) = 0;
        bool ok = x.getElement(i, m);
        if (ok) {
            std::string ds;
            for (unsigned k = K; k; --k) ds += " " + std::to_string(m.from(k));
            emit("elem %s %ld ->%s", xn.c_str(), i, ds.c_str());
        } else emit("elem %s %ld -> none", xn.c_str(), i);
        STATS.hit(ok ? "elem.found" : "elem.none");
    }
    // root header
    emit("hdrx %s %ld", xn.c_str(), long(C.G->getIndexSetCardinality(x.getNode())));
    if (iterate) {
        // enumeration of the index set itself: members in order with values 0,1,2,...
        std::string R = "R" + xn;
        std::string mask;
        for (unsigned k = K; k; --k) mask += " x";
        emit("iter %s %s G%s", R.c_str(), xn.c_str(), mask.c_str());
        for (dd_edge::iterator it = x.begin(); it; ++it) {
            std::string ds;
            for (unsigned k = K; k; --k) ds += std::to_string((*it).from(k)) + " ";
            emit("visit %s %s= %s", R.c_str(), ds.c_str(), fromRangeval((*it).getValue()).str().c_str());
        }
        emit("endvisit %s", R.c_str());
        long cl = -1;
        apply(CARDINALITY, x, cl);
        emit("card %s long %ld", xn.c_str(), cl);
        STATS.hit("iter.index");
    }
    if (audit) {
        emitAudit("G", C.G, C.kx);
        emitRoot(xn, "G", x, C.kx);
        node_handle last = C.G->getLastNode();
        for (node_handle h = 1; h <= last; h++) {
            if (!C.G->isActiveNode(h) || C.G->isDeletedNode(h)) continue;
            emit("hdr G N%d %ld", h, long(C.G->getIndexSetCardinality(h)));
            STATS.hit("hdr.nodes");
        }
        emit("hdr G TZ %ld", long(C.G->getIndexSetCardinality(0)));
        emit("hdr G TW %ld", long(C.G->getIndexSetCardinality(-1)));
        // structural tie: the acceptor runs the MODEL conversion and the MODEL getElement on the
        // unfolded real source node structure and compares them with what the library produced
        emitAudit("F", C.F, C.ks);
        emitRoot(sn, "F", s, C.ks);
        emit("modelidx %s %s F %s", xn.c_str(), sn.c_str(), edgeStr(s, C.ks).c_str());
        STATS.hit("modelidx");
    }
    // source unchanged
    emitTable(sn, "F", C.D, s);
    emit("unchanged %s", sn.c_str());
}

// ---------------------------------------------------------------------------------------------------------
// LARGE product sets: { x : x_k in A_k for every k } over 20..24 variables of sizes 4..5, far more than 2^31
// (often 2^32) members, a linear number of nodes.  The acceptor knows the closed form: the member of rank i is
// the mixed-radix representation of i over (|A_K|, ..., |A_1|) mapped through the sorted A_k; records
//   scalar prodset <size>:<digits of A_K>,...,<size>:<digits of A_1>
//   prodelem <i> -> d_K ... d_1 | none          getElement(i)
//   prodindex d_K ... d_1 -> <v>                 evaluate at an assignment (member -> its rank, else inf)
//   prodcard <how> <n>                           how = header (getIndexSetCardinality of the root) | long | double
void bigProduct(Rng& r, const Args& A, void (*open)(Ctx&, Rng&, bool), void (*close)(Ctx&));
void openCtx(Ctx& C, Rng& r, bool randomPol) {
    C.D.create();
    emits(C.D.str());
    Pol ps = randomPol && r.chance(1, 2) ? Pol::random(r) : Pol();
    Pol px = randomPol && r.chance(1, 2) ? Pol::random(r) : Pol();
    C.F = makeForest(C.D.d, C.ks, ps);
    C.G = makeForest(C.D.d, C.kx, px);
    emitForest("F", C.F, C.ks, ps);
    emitForest("G", C.G, C.kx, px);
    STATS.hit("src." + C.ks.str());
    STATS.hit("idx." + C.kx.str());
}
void closeCtx(Ctx& C) {
    forest::destroy(C.F);
    forest::destroy(C.G);
    C.D.destroy();
}

void bigProduct(Rng& r, const Args& A, void (*open)(Ctx&, Rng&, bool), void (*close)(Ctx&)) {
    (void) A;
    Ctx C;
    unsigned K = unsigned(r.range(20, 24));
    for (unsigned i = 0; i < K; i++) C.D.sizes.push_back(r.range(4, 5));
    bool quasi = r.chance(2, 3);
    C.ks = srcKind(quasi ? reduction_rule::QUASI_REDUCED : reduction_rule::FULLY_REDUCED);
    C.kx = idxKind(r.chance(1, 3) ? reduction_rule::QUASI_REDUCED : reduction_rule::FULLY_REDUCED);
    open(C, r, true);
    // allowed sets; a fully-reduced source never gets two adjacent unconstrained levels (the conversion
    // expands skipped levels one by one)
    std::vector<std::vector<int>> Aset(K + 1);
    bool prevFull = false;
    std::string desc;
    long n = 1;
    for (unsigned k = K; k; --k) {
        int sz = C.D.sizes[k - 1];
        int m = r.range(3, sz);
        if (m == sz && (prevFull || !r.chance(1, 3))) m = sz - 1;
        prevFull = m == sz;
        std::vector<int> all;
        for (int d = 0; d < sz; d++) all.push_back(d);
        for (int j = 0; j < m; j++) { size_t q = size_t(j) + r.below(unsigned(all.size() - size_t(j))); std::swap(all[size_t(j)], all[q]); }
        all.resize(size_t(m));
        std::sort(all.begin(), all.end());
        Aset[k] = all;
        desc += (k == K ? "" : ",") + std::to_string(sz) + ":";
        for (int d : all) desc += char('0' + d);
        n *= m;
    }
    emit("scalar prodset %s", desc.c_str());
    STATS.hit(n > (1L << 31) ? "prod.beyond-2^31" : "prod.within-2^31");
    if (n > (1L << 32)) STATS.hit("prod.beyond-2^32");
    {
        dd_edge e(C.F);
        C.F->createConstant(true, e);
        for (unsigned k = 1; k <= K; k++) {
            minterm_coll mc(unsigned(Aset[k].size()), C.F);
            for (int d : Aset[k]) {
                for (unsigned v = 1; v <= K; v++) mc.unused().setVar(v, DONT_CARE);
                mc.unused().setVar(k, d);
                mc.unused().setValue(true);
                mc.pushUnused();
            }
            dd_edge ek(C.F);
            mc.buildFunctionMax(false, ek);
            apply(INTERSECTION, e, ek, e);
        }
        dd_edge x(C.G);
        apply(CONVERT_TO_INDEX_SET, e, x);
        emit("note product-set members %ld source-nodes %lu index-nodes %lu", n, e.getNodeCount(), x.getNodeCount());
        emit("prodcard header %ld", long(C.G->getIndexSetCardinality(x.getNode())));
        { long cl = -1; apply(CARDINALITY, x, cl); emit("prodcard long %ld", cl); }
        { double cd = -1; apply(CARDINALITY, x, cd); emit("prodcard double %.0f", cd); }
        // indexes around every boundary that matters + random ones
        std::vector<long> idx = {-1, 0, 1, 12345, (1L << 31) - 1, 1L << 31, (1L << 31) + 1, (1L << 32) - 1, 1L << 32, (1L << 32) + 777,
                                 n - 1, n, n + 5};
        long wtop = n / long(Aset[K].size());                 // offset step of the top node's children
        for (size_t j = 1; j < Aset[K].size(); j++) { idx.push_back(long(j) * wtop - 1); idx.push_back(long(j) * wtop); }
        for (int j = 0; j < 24; j++) idx.push_back(long(r.next() % uint64_t(n)));
        minterm m(C.G);
        for (long i : idx) {
            for (unsigned k = 1; k <= K; k++) m.from(k) = 0;
            bool ok = x.getElement(i, m);
            if (ok) {
                std::string ds;
                for (unsigned k = K; k; --k) ds += " " + std::to_string(m.from(k));
                emit("prodelem %ld ->%s", i, ds.c_str());
                // ... and back: the index of that assignment
                rangeval rv;
                x.evaluate(m, rv);
                emit("prodindex%s -> %s", ds.c_str(), fromRangeval(rv).str().c_str());
            } else emit("prodelem %ld -> none", i);
            STATS.hit(ok ? "prod.elem.found" : "prod.elem.none");
        }
        // a few assignments that are not members
        for (int j = 0; j < 6; j++) {
            std::string ds;
            for (unsigned k = K; k; --k) { int d = r.range(0, C.D.sizes[k - 1] - 1); m.from(k) = d; ds += " " + std::to_string(d); }
            rangeval rv;
            x.evaluate(m, rv);
            emit("prodindex%s -> %s", ds.c_str(), fromRangeval(rv).str().c_str());
        }
    }
    close(C);
}

int run(const Args& A) {
    libInit();
    if (A.getl("f2", 0)) steerF2 = false;
    static const std::vector<std::vector<int>> tinyDoms = {{2}, {2, 2}, {3, 2}, {2, 2, 2}};
    long nrandom = A.cases > 0 ? A.cases : (A.thorough() ? 6000 : 1200);
    long total = 1 + 8 + nrandom;
    for (long c = 0; c < total; c++) {
        Rng r(Rng::mix(A.seed, uint64_t(c)));
        if (c == 0) {
            // the probe always runs (it decides whether the other cases steer away), but is only
            // printed when selected
            Ctx C;
            C.D.sizes = {2, 2};
            C.ks = srcKind(reduction_rule::FULLY_REDUCED);
            C.kx = idxKind(reduction_rule::FULLY_REDUCED);
            if (A.selected(c)) {
                beginCase(c);
                openCtx(C, r, false);
                bool ok = probeF2(C.F, C.G, C.D);
                if (ok) steerF2 = false;
                endCase();
                closeCtx(C);
            } else if (steerF2) {
                // silent probe
                C.D.create();
                C.F = makeForest(C.D.d, C.ks, Pol());
                C.G = makeForest(C.D.d, C.kx, Pol());
                dd_edge s(C.F), x(C.G);
                C.F->createConstant(false, s);
                apply(CONVERT_TO_INDEX_SET, s, x);
                fflush(stdout);
                pid_t pid = fork();
                if (pid == 0) {
                    int devnull = open("/dev/null", 1);
                    if (devnull >= 0) dup2(devnull, 2);
                    minterm m(C.G);
                    bool ok = false;
                    try { ok = x.getElement(0, m); } catch (...) { _exit(12); }
                    _exit(ok ? 10 : 11);
                }
                int status = 0;
                waitpid(pid, &status, 0);
                if (WIFEXITED(status) && (WEXITSTATUS(status) == 10 || WEXITSTATUS(status) == 11)) steerF2 = false;
                s.detach(); x.detach();
                closeCtx(C);
            }
            continue;
        }
        if (!A.selected(c)) continue;
        Ctx C;
        if (c <= 8) {
            // exhaustive: every subset of a tiny domain
            C.D.sizes = tinyDoms[size_t((c - 1) / 2)];
            C.ks = srcKind((c - 1) % 2 ? reduction_rule::QUASI_REDUCED : reduction_rule::FULLY_REDUCED);
            C.kx = idxKind(r.chance(1, 2) ? reduction_rule::QUASI_REDUCED : reduction_rule::FULLY_REDUCED);
            beginCase(c);
            openCtx(C, r, false);
            size_t n = C.D.card(false);
            for (size_t bits = 0; bits < (size_t(1) << n); bits++) {
                std::vector<Val> t(n);
                for (size_t i = 0; i < n; i++) t[i] = Val::boolean((bits >> i) & 1);
                oneSet(C, t, n <= 6 || bits % 7 == 0 || bits + 1 == (size_t(1) << n), n <= 6 || bits % 5 == 0);
                STATS.hit("exhaustive.subsets");
            }
            endCase();
            closeCtx(C);
            continue;
        }
        if (c % 25 == 24) {
            beginCase(c);
            bigProduct(r, A, openCtx, closeCtx);
            endCase();
            continue;
        }
        C.D = randomDom(r, 1, A.thorough() ? 6 : 5, A.thorough() ? 5 : 4, A.thorough() ? 1500 : 400, false);
        C.ks = srcKind(r.chance(1, 2) ? reduction_rule::QUASI_REDUCED : reduction_rule::FULLY_REDUCED);
        C.kx = idxKind(r.chance(1, 4) ? reduction_rule::QUASI_REDUCED : reduction_rule::FULLY_REDUCED);
        beginCase(c);
        openCtx(C, r, true);
        int nsets = r.range(1, 4);
        std::vector<Val> prev;
        for (int j = 0; j < nsets; j++) {
            static const unsigned dens[] = {0, 3, 15, 50, 85, 100};
            std::vector<Val> t = randomTable(r, C.D, C.ks, dens[r.below(6)]);
            if (!prev.empty() && r.chance(1, 3)) {
                // near-duplicate of the previous set: shares most nodes, warm compute table
                t = prev;
                size_t i = r.below(unsigned(t.size()));
                t[i] = Val::boolean(!t[i].n);
            }
            if (r.chance(1, 6)) {
                // a cube: many skipped levels in a fully-reduced source
                minterm mk(C.F);
                std::vector<int> fix(C.D.K() + 1);
                for (unsigned v = 1; v <= C.D.K(); v++) fix[v] = r.chance(1, 2) ? r.range(0, C.D.sizes[v - 1] - 1) : -1;
                for (size_t idx = 0; idx < t.size(); idx++) {
                    size_t rest = idx; bool in = true;
                    for (unsigned v = 1; v <= C.D.K(); v++) { int d = int(rest % size_t(C.D.sizes[v - 1])); rest /= size_t(C.D.sizes[v - 1]); if (fix[v] >= 0 && fix[v] != d) in = false; }
                    t[idx] = Val::boolean(in);
                }
                STATS.hit("gen.cube");
            }
            oneSet(C, t, j == nsets - 1 || r.chance(1, 2), r.chance(1, 2));
            prev = t;
        }
        endCase();
        closeCtx(C);
    }
    emit("note f2-steering %s", steerF2 ? "on" : "off");
    libCleanup();
    return 0;
}
FamilyReg reg("index", run, "C15 index sets: conversion, evaluate, getElement, stored cardinalities");
}  // namespace
