// Family `build` (C03): functions built from minterms, constants and variables evaluate as specified.
//
// Records added to the generic function-level protocol (all handled by lean/Driver/P_Build.lean):
//   mt <i> <value> <from 1..K> [| <to 1..K>]   minterm i of the case; entries: number, x (DONT_CARE), c (DONT_CHANGE,
//                                              primed only); exactly what was passed to setVar / setVars
//   coll <R> <F> max|min <dflt> <tag> <i j k ...>   R := minterm_coll{i,j,k,...}.buildFunctionMax/Min(dflt) in forest F;
//                                              tag = incontract | offcontract (default beyond some value)
//   single <R> <F> <i> <dflt>                  R := minterm i .buildFunction(dflt)
//   const <R> <F> <v>                          R := F->createConstant(v)
//   var <R> <F> <level> <primed 0|1> [t0 t1 ...]    R := F->createEdgeForVar(level, primed, terms or nullptr)
//   builderr <R> <F> <what> <CODE>             the construction announced by the preceding record raised CODE
// Each construction record is followed by `table R F ...` (dd_edge::evaluate at every assignment); at the end of
// the case the forest is dumped (`emitAudit`) and every built edge gets a `root` record, so that the model's
// evaluation of the dumped structure is compared with dd_edge::evaluate as well.
#include "common.h"
using namespace MEDDLY;
using namespace mdh;

namespace {

struct MT {
    std::vector<int> from, to;   // index 0 = variable 1
    Val v;
};

bool isEVP(const Kind& k) { return k.el == edge_labeling::EVPLUS || k.el == edge_labeling::INDEX_SET; }
bool isEVT(const Kind& k) { return k.el == edge_labeling::EVTIMES; }

// total order of the model on values of one kind (inf = top)
bool valLE(const Val& a, const Val& b) {
    if (b.t == Val::INF) return true;
    if (a.t == Val::INF) return false;
    return a.toDouble() <= b.toDouble();
}

std::string entStr(int e) {
    if (e == DONT_CARE) return "x";
    if (e == DONT_CHANGE) return "c";
    return std::to_string(e);
}

std::string mtStr(const MT& m, bool rel) {
    std::string s = m.v.str();
    for (int e : m.from) s += " " + entStr(e);
    if (rel) {
        s += " |";
        for (int e : m.to) s += " " + entStr(e);
    }
    return s;
}

void fill(minterm& m, const MT& t, const Kind& k) {
    for (unsigned v = 1; v <= t.from.size(); v++) {
        if (k.rel) m.setVars(v, t.from[v - 1], t.to[v - 1]);
        else m.setVar(v, t.from[v - 1]);
    }
    m.setValue(toRangeval(t.v, k.rt));
}

// value pool of a kind, including the boundaries asked for by the property
Val buildValue(Rng& r, const Kind& k, bool wide) {
    if (k.rt == range_type::BOOLEAN) return Val::boolean(r.chance(2, 3));
    if (k.rt == range_type::INTEGER) {
        if (isEVP(k)) {
            if (r.chance(1, 7)) return Val::inf();
            if (wide && r.chance(1, 8)) {
                static const long big[] = {1073741823L, -1073741824L, 1073741824L, 2147483647L, -2147483647L};
                return Val::integer(big[r.below(5)]);
            }
            return Val::integer(r.range(-4, 7));
        }
        if (wide && r.chance(1, 6)) {
            static const long big[] = {1073741823L, -1073741824L, 1073741822L, -1073741823L};
            return Val::integer(big[r.below(4)]);
        }
        return Val::integer(r.range(-4, 7));
    }
    if (isEVT(k)) {
        static const double p2[] = {0.0, 0.25, 0.5, 1.0, 2.0, 4.0, -1.0, -2.0, -0.5, 8.0};
        return Val::real(p2[r.below(10)]);
    }
    static const double pool[] = {-2.0, -1.0, -0.5, 0.0, 0.5, 1.0, 1.5, 2.0, 3.0, 4.0, -3.5, 6.5};
    return Val::real(pool[r.below(12)]);
}

MT randomMT(Rng& r, const Dom& D, const Kind& k, bool wide, unsigned pDC, unsigned pCHG) {
    MT m;
    for (unsigned v = 0; v < D.K(); v++) {
        int sz = D.sizes[v];
        int f = r.below(100) < pDC ? DONT_CARE : r.range(0, sz - 1);
        int t = 0;
        if (k.rel) {
            unsigned x = r.below(100);
            if (x < pCHG) t = DONT_CHANGE;
            else if (x < pCHG + pDC) t = DONT_CARE;
            else t = r.range(0, sz - 1);
        }
        m.from.push_back(f);
        m.to.push_back(t);
    }
    m.v = buildValue(r, k, wide);
    return m;
}

struct Built { std::string name; dd_edge e; };

// FINDING "transparent-value minterm" (see NOTES.md): setPathToBottom / relPathToBottom hand a sparse
// unpacked node with one *unwritten* slot to createReducedNode when the edge to add is transparent
// (minterm value = the forest's transparent value false / 0 / 0.0 / +inf, default transparent too).
// While the defect is present in the library under test (detected at start-up by its minimal reproduction),
// the generators steer away from exactly that trigger (--transparentvalues 1: never steer, 0: always); the
// probe cases 100000.. (run after the generated cases unless --probes 0) reproduce it.
bool STEER = true;
bool triggersTransparent(const Kind& k, const Val& dflt, const Val& v) { return dflt == k.zero() && v == k.zero(); }

struct Ctx {
    const Dom& D;
    const Kind& k;
    forest* F;
    std::vector<MT>& mts;
    std::vector<Built*>& held;
    int serial = 0;
    std::string fresh() { return "R" + std::to_string(serial++); }
};

// run one construction, print its record, its table or its error
template <class FN>
void construct(Ctx& C, const std::string& name, const std::string& record, const char* what, FN fn) {
    emits(record);
    Built* b = new Built{name, dd_edge(C.F)};
    try {
        fn(b->e);
        emitTable(name, "F", C.D, b->e);
        C.held.push_back(b);
        STATS.hit(std::string("ok.") + what);
    } catch (error& e) {
        emit("builderr %s F %s %s", name.c_str(), what, errName(e));
        emit("note thrown-at %s:%u", e.getFile(), e.getLine());
        STATS.hit(std::string("err.") + what + "." + errName(e));
        delete b;
    }
}

std::string doColl(Ctx& C, bool isMax, const Val& dflt, const std::vector<int>& idx) {
    bool off = false;
    for (int i : idx) {
        const Val& v = C.mts[size_t(i)].v;
        if (isMax ? !valLE(dflt, v) : !valLE(v, dflt)) off = true;
    }
    std::string name = C.fresh();
    std::string rec = "coll " + name + " F " + (isMax ? "max " : "min ") + dflt.str() + (off ? " offcontract" : " incontract");
    for (int i : idx) rec += " " + std::to_string(i);
    STATS.hit(off ? "coll.offcontract" : "coll.incontract");
    STATS.hit(std::string("coll.size.") + (idx.size() < 10 ? std::to_string(idx.size()) : "10+"));
    construct(C, name, rec, isMax ? "collmax" : "collmin", [&](dd_edge& e) {
        minterm_coll mc(unsigned(idx.size() ? idx.size() : 1), C.F);
        for (int i : idx) {
            fill(mc.unused(), C.mts[size_t(i)], C.k);
            mc.pushUnused();
        }
        if (isMax) mc.buildFunctionMax(toRangeval(dflt, C.k.rt), e);
        else mc.buildFunctionMin(toRangeval(dflt, C.k.rt), e);
    });
    return name;
}

void doSingle(Ctx& C, int i, const Val& dflt) {
    std::string name = C.fresh();
    std::string rec = "single " + name + " F " + std::to_string(i) + " " + dflt.str();
    construct(C, name, rec, "single", [&](dd_edge& e) {
        minterm m(C.F);
        fill(m, C.mts[size_t(i)], C.k);
        m.buildFunction(toRangeval(dflt, C.k.rt), e);
    });
}

void doConst(Ctx& C, const Val& v) {
    std::string name = C.fresh();
    construct(C, name, "const " + name + " F " + v.str(), "const",
              [&](dd_edge& e) { C.F->createConstant(toRangeval(v, C.k.rt), e); });
}

void doVar(Ctx& C, int level, bool primed, const std::vector<Val>* terms) {
    std::string name = C.fresh();
    std::string rec = "var " + name + " F " + std::to_string(level) + " " + (primed ? "1" : "0");
    if (terms) for (const Val& v : *terms) rec += " " + v.str();
    construct(C, name, rec, terms ? "varterms" : "var", [&](dd_edge& e) {
        if (terms) {
            std::vector<rangeval> rv;
            for (const Val& v : *terms) rv.push_back(toRangeval(v, C.k.rt));
            C.F->createEdgeForVar(level, primed, rv.data(), e);
        } else {
            C.F->createEdgeForVar(level, primed, e);
        }
    });
}

// default value for a collection: inside the contract unless `off`
Val pickDefault(Rng& r, const Kind& k, const std::vector<MT>& mts, const std::vector<int>& idx, bool isMax, bool off, bool wide) {
    if (off || idx.empty()) {
        for (int tries = 0; tries < 20; tries++) {
            Val d = buildValue(r, k, wide);
            if (d.t == Val::INF && !isEVP(k)) continue;
            return d;
        }
    }
    // extreme of the values
    Val ext = mts[size_t(idx[0])].v;
    for (int i : idx) {
        const Val& v = mts[size_t(i)].v;
        if (isMax ? valLE(v, ext) : valLE(ext, v)) ext = v;
    }
    // at the bound, or strictly beyond it, or the transparent value when that is legal
    unsigned c = r.below(3);
    if (c == 0) return ext;
    Val z = k.zero();
    if (c == 1 && (isMax ? valLE(z, ext) : valLE(ext, z)) && !(z.t == Val::INF && !isEVP(k))) return z;
    if (ext.t == Val::INF) return ext;     // min: nothing above +inf ; max with all values inf: any; keep inf
    switch (k.rt) {
        case range_type::BOOLEAN: return ext;
        case range_type::INTEGER: {
            if (!isMax && isEVP(k) && r.chance(1, 2)) return Val::inf();
            long d = isMax ? ext.n - r.range(1, 3) : ext.n + r.range(1, 3);
            if (!isEVP(k)) { if (d > 1073741823L) d = 1073741823L; if (d < -1073741824L) d = -1073741824L; }
            return Val::integer(d);
        }
        default: {
            double d = ext.toDouble();
            if (isEVT(k)) d = isMax ? (d > 0 ? d / 2 : (d == 0 ? -1.0 : d * 2)) : (d > 0 ? d * 2 : (d == 0 ? 1.0 : d / 2));
            else d = isMax ? d - 0.5 * r.range(1, 3) : d + 0.5 * r.range(1, 3);
            return Val::real(d);
        }
    }
}

void finishCase(Ctx& C, Rng* r) {
    emitAudit("F", C.F, C.k);
    for (Built* b : C.held) emitRoot(b->name, "F", b->e, C.k);
    // canonicity of the builders: edges with equal tables must be the same edge (sampled pairs)
    if (r) {
        size_t n = C.held.size();
        for (int t = 0; t < 12 && n >= 2; t++) {
            size_t i = r->below(unsigned(n)), j = r->below(unsigned(n));
            if (i == j) continue;
            emitEq(C.held[i]->name, C.held[j]->name, C.held[i]->e, C.held[j]->e);
        }
    }
    for (Built* b : C.held) delete b;
    C.held.clear();
    C.F->removeAllComputeTableEntries();
    emit("expect leak-F 0 %ld", C.F->getCurrentNumNodes());
}

// ------------------------------------------------------------------ random cases
void randomCase(const Args& A, long c, const std::vector<Kind>& kinds) {
    Rng r(Rng::mix(A.seed, uint64_t(c)));
    Kind k = kinds[r.below(unsigned(kinds.size()))];
    bool wide = r.chance(1, 3);
    Dom D = k.rel ? randomDom(r, 1, 3, 4, A.thorough() ? 2500 : 700, true)
                  : randomDom(r, 1, 5, 4, A.thorough() ? 1100 : 400, false);
    D.create();
    beginCase(c);
    emits(D.str());
    Pol pol = r.chance(1, 2) ? Pol::random(r) : Pol();
    forest* F = makeForest(D.d, k, pol);
    emitForest("F", F, k, pol);
    STATS.hit("kind." + k.str());
    STATS.hit("vars." + std::to_string(D.K()));

    std::vector<MT> mts;
    std::vector<Built*> held;
    Ctx C{D, k, F, mts, held};
    // don't-care / don't-change densities of this case
    static const unsigned dens[] = {0, 10, 30, 50, 80};
    unsigned pDC = dens[r.below(5)], pCHG = k.rel ? dens[r.below(4)] / 2 : 0;
    int nm = r.range(0, 12);
    for (int i = 0; i < nm; i++) {
        if (i > 0 && r.chance(1, 6)) {
            MT m = mts[r.below(unsigned(i))];          // duplicate / same pattern with another value
            if (r.chance(1, 2)) m.v = buildValue(r, k, wide);
            mts.push_back(m);
        } else mts.push_back(randomMT(r, D, k, wide, pDC, pCHG));
        emit("mt %d %s", i, mtStr(mts.back(), k.rel).c_str());
        for (unsigned v = 0; v < D.K(); v++) {
            if (mts.back().from[v] == DONT_CARE) STATS.hit("entry.from.dontcare"); else STATS.hit("entry.from.fixed");
            if (k.rel) {
                int t = mts.back().to[v];
                STATS.hit(t == DONT_CARE ? "entry.to.dontcare" : t == DONT_CHANGE ? "entry.to.dontchange" : "entry.to.fixed");
            }
        }
    }
    int nops = r.range(3, 8);
    for (int o = 0; o < nops; o++) {
        unsigned what = r.below(10);
        if (what < 6) {
            // collection: a multiset of 0..12 of the defined minterms
            std::vector<int> idx;
            if (nm > 0) {
                int n = r.chance(1, 10) ? 0 : r.range(1, 12);
                for (int i = 0; i < n; i++) idx.push_back(int(r.below(unsigned(nm))));
            }
            bool isMax = r.chance(1, 2);
            bool off = !A.getl("nooffcontract", 0) && r.chance(1, 8);
            Val dflt = pickDefault(r, k, mts, idx, isMax, off, wide);
            if (dflt.t == Val::INF && !isEVP(k)) dflt = k.zero();
            if (STEER) {
                std::vector<int> keep;
                for (int i : idx) if (!triggersTransparent(k, dflt, mts[size_t(i)].v)) keep.push_back(i); else STATS.hit("steer.dropped-transparent-minterm");
                idx.swap(keep);
            }
            std::string a = doColl(C, isMax, dflt, idx);
            if (idx.size() >= 2 && r.chance(1, 3)) {
                // same multiset in another order: must be the same edge (buildColl_perm)
                std::vector<int> sh = idx;
                for (size_t i = sh.size(); i > 1; i--) std::swap(sh[i - 1], sh[r.below(unsigned(i))]);
                size_t before = held.size();
                std::string b = doColl(C, isMax, dflt, sh);
                if (held.size() == before + 1 && before >= 1 && held[before - 1]->name == a)
                    emitEq(a, b, held[before - 1]->e, held[before]->e);
                STATS.hit("coll.shuffled");
            }
        } else if (what < 8) {
            if (nm == 0) continue;
            int i = int(r.below(unsigned(nm)));
            Val dflt = r.chance(1, 3) ? k.zero() : buildValue(r, k, wide);
            if (dflt.t == Val::INF && !isEVP(k)) dflt = k.zero();
            if (STEER && triggersTransparent(k, dflt, mts[size_t(i)].v)) { STATS.hit("steer.skipped-transparent-single"); continue; }
            doSingle(C, i, dflt);
        } else if (what < 9) {
            Val v = buildValue(r, k, wide);
            if (v.t == Val::INF && !isEVP(k)) v = k.zero();
            doConst(C, v);
        } else {
            int level = r.range(1, int(D.K()));
            bool primed = k.rel && r.chance(1, 2);
            if (r.chance(1, 2)) doVar(C, level, primed, nullptr);
            else {
                std::vector<Val> terms;
                for (int i = 0; i < D.sizes[size_t(level - 1)]; i++) {
                    Val v = buildValue(r, k, wide);
                    if (v.t == Val::INF && !isEVP(k)) v = k.zero();
                    terms.push_back(v);
                }
                doVar(C, level, primed, &terms);
            }
        }
    }
    finishCase(C, &r);
    endCase();
    forest::destroy(F);
    D.destroy();
}

// ------------------------------------------------------------------ exhaustive sub-tier
// all collections of <= 2 minterms over (2,2) sets / (2) relations, MT bool and int, every rule,
// max and min, default at the contract bound and (int) strictly inside the values (off contract).
void exhaustiveCase(long c, bool rel, range_type rt, reduction_rule rr) {
    Kind k; k.rel = rel; k.rt = rt; k.el = edge_labeling::MULTI_TERMINAL; k.rr = rr;
    Dom D;
    if (rel) D.sizes = {2}; else D.sizes = {2, 2};
    D.create();
    beginCase(c);
    emits(D.str());
    Pol pol;
    forest* F = makeForest(D.d, k, pol);
    emitForest("F", F, k, pol);
    STATS.hit("exh.kind." + k.str());
    std::vector<MT> mts;
    std::vector<Built*> held;
    Ctx C{D, k, F, mts, held};
    std::vector<Val> vals;
    if (rt == range_type::BOOLEAN) vals = {Val::boolean(false), Val::boolean(true)};
    else vals = {Val::integer(1), Val::integer(2)};
    const int fromE[] = {0, 1, DONT_CARE};
    const int toE[] = {0, 1, DONT_CARE, DONT_CHANGE};
    if (rel) {
        for (int f : fromE) for (int t : toE) for (const Val& v : vals) { MT m; m.from = {f}; m.to = {t}; m.v = v; mts.push_back(m); }
    } else {
        for (int f1 : fromE) for (int f2 : fromE) for (const Val& v : vals) { MT m; m.from = {f1, f2}; m.to = {0, 0}; m.v = v; mts.push_back(m); }
    }
    for (size_t i = 0; i < mts.size(); i++) emit("mt %zu %s", i, mtStr(mts[i], rel).c_str());
    int n = int(mts.size());
    std::vector<std::pair<bool, Val>> modes;   // (isMax, default)
    modes.push_back({true, vals[0]});
    modes.push_back({false, vals[1]});
    modes.push_back({true, vals[1]});          // off contract whenever vals[0] occurs
    modes.push_back({false, vals[0]});
    for (auto& md : modes) {
        doColl(C, md.first, md.second, {});
        auto bad = [&](int i) { return STEER && triggersTransparent(k, md.second, mts[size_t(i)].v); };
        for (int i = 0; i < n; i++) {
            if (bad(i)) { STATS.hit("steer.exh-skipped"); continue; }
            doColl(C, md.first, md.second, {i});
            for (int j = 0; j < n; j++) { if (bad(j)) { STATS.hit("steer.exh-skipped"); continue; } doColl(C, md.first, md.second, {i, j}); }
        }
        // keep the dump small: audit per mode
        finishCase(C, nullptr);
    }
    for (int i = 0; i < n; i++)
        for (int d = 0; d < 2; d++) {
            if (STEER && triggersTransparent(k, vals[size_t(d)], mts[size_t(i)].v)) { STATS.hit("steer.exh-skipped"); continue; }
            doSingle(C, i, vals[size_t(d)]);
        }
    finishCase(C, nullptr);
    endCase();
    forest::destroy(F);
    D.destroy();
}

// ------------------------------------------------------------------ probes
// the witness of lean/MeddlyModel/Ops/Build.lean ("the guard of buildColl_eval is needed") on the real library
void witnessCase(long c) {
    Kind k; k.rel = false; k.rt = range_type::INTEGER; k.el = edge_labeling::MULTI_TERMINAL; k.rr = reduction_rule::FULLY_REDUCED;
    Dom D; D.sizes = {2, 3};
    D.create();
    beginCase(c);
    emit("note offcontract-witness");
    emits(D.str());
    Pol pol;
    forest* F = makeForest(D.d, k, pol);
    emitForest("F", F, k, pol);
    std::vector<MT> mts;
    std::vector<Built*> held;
    Ctx C{D, k, F, mts, held};
    { MT m; m.from = {0, DONT_CARE}; m.to = {0, 0}; m.v = Val::integer(1); mts.push_back(m); }
    { MT m; m.from = {1, 0}; m.to = {0, 0}; m.v = Val::integer(7); mts.push_back(m); }
    for (size_t i = 0; i < mts.size(); i++) emit("mt %zu %s", i, mtStr(mts[i], false).c_str());
    doColl(C, true, Val::integer(5), {0, 1});
    doColl(C, true, Val::integer(0), {0, 1});
    doColl(C, true, Val::integer(5), {0});
    finishCase(C, nullptr);
    endCase();
    forest::destroy(F);
    D.destroy();
}

// probes for the FINDING: value = transparent value, default = transparent value
void probeTransparent(long c, bool rel, range_type rt, edge_labeling el, reduction_rule rr) {
    Kind k; k.rel = rel; k.rt = rt; k.el = el; k.rr = rr;
    Dom D; D.sizes = {2};
    D.create();
    beginCase(c);
    emit("note probe transparent-value-minterm");
    emits(D.str());
    Pol pol;
    forest* F = makeForest(D.d, k, pol);
    emitForest("F", F, k, pol);
    std::vector<MT> mts;
    std::vector<Built*> held;
    Ctx C{D, k, F, mts, held};
    Val z = k.zero();
    Val nz = rt == range_type::BOOLEAN ? Val::boolean(true) : rt == range_type::INTEGER ? Val::integer(3) : Val::real(2.0);
    { MT m; m.from = {0}; m.to = {1}; m.v = nz; mts.push_back(m); }
    { MT m; m.from = {0}; m.to = {1}; m.v = z; mts.push_back(m); }
    { MT m; m.from = {1}; m.to = {0}; m.v = z; mts.push_back(m); }
    for (size_t i = 0; i < mts.size(); i++) emit("mt %zu %s", i, mtStr(mts[i], rel).c_str());
    doSingle(C, 0, z);            // leaves (index 0 -> value) in the recycled unpacked node
    doSingle(C, 1, z);            // value = default = transparent: must be the constant z
    doColl(C, !isEVP(k), z, {1, 2});
    finishCase(C, nullptr);
    endCase();
    forest::destroy(F);
    D.destroy();
}

// Is the transparent-value defect present in this library build?  (minimal reproduction, silent)
bool detectTransparentDefect() {
    int sz[] = {2};
    domain* d = domain::createBottomUp(sz, 1);
    policies p(false);
    p.useDefaults(false);
    forest* F = forest::create(d, SET, range_type::BOOLEAN, edge_labeling::MULTI_TERMINAL, p);
    bool bad = false;
    {
        minterm m(F);
        dd_edge a(F), b(F);
        m.setVar(1, 0);
        m.setValue(rangeval(true));
        m.buildFunction(rangeval(false), a);      // leaves (index 0 -> true) in the recycled unpacked node
        m.setValue(rangeval(false));
        m.buildFunction(rangeval(false), b);      // must be the constant false
        rangeval v;
        b.evaluate(m, v);
        bad = bool(v);
    }
    forest::destroy(F);
    domain::destroy(d);
    return bad;
}

void runProbes(const Args& A) {
    long pc = 100000;
    for (int rel = 0; rel < 2; rel++) {
        if (A.selected(pc)) probeTransparent(pc, rel, range_type::BOOLEAN, edge_labeling::MULTI_TERMINAL, reduction_rule::FULLY_REDUCED);
        ++pc;
        if (A.selected(pc)) probeTransparent(pc, rel, range_type::INTEGER, edge_labeling::MULTI_TERMINAL, reduction_rule::QUASI_REDUCED);
        ++pc;
        if (A.selected(pc)) probeTransparent(pc, rel, range_type::INTEGER, edge_labeling::EVPLUS, reduction_rule::FULLY_REDUCED);
        ++pc;
    }
}

int run(const Args& A) {
    libInit();
    // --transparentvalues 0: always steer away from the trigger of the FINDING; 1: never steer;
    // default (auto): steer only while the defect is present in the library under test
    std::string tv = A.get("transparentvalues", "auto");
    bool defect = detectTransparentDefect();
    STEER = tv == "0" ? true : tv == "1" ? false : defect;
    emit("note transparent-value-defect %s steering %s", defect ? "present" : "absent", STEER ? "on" : "off");
    STATS.hit(STEER ? "steering.on" : "steering.off");
    // --probes 0: no probe cases; 1 (default): probe cases after the generated ones; 2: only the probes
    long probes = A.getl("probes", 1);
    if (probes == 2) {
        runProbes(A);
        libCleanup();
        return 0;
    }
    std::vector<Kind> kinds = allKinds(true, true);
    if (A.getl("noevp", 0)) {
        // the sanitizer flavour halts on a misaligned `long` edge value of EV+ storage (not C03's subject)
        std::vector<Kind> keep;
        for (const Kind& k : kinds) if (!isEVP(k)) keep.push_back(k);
        kinds.swap(keep);
    }
    long ncases = A.cases > 0 ? A.cases : (A.thorough() ? 20000 : 2500);
    long c = 0;
    // exhaustive sub-tier first (cases 0..19), then the witness, then random cases
    if (!A.getl("noexhaustive", 0)) {
        for (int rel = 0; rel < 2; rel++)
            for (range_type rt : {range_type::BOOLEAN, range_type::INTEGER})
                for (reduction_rule rr : {reduction_rule::FULLY_REDUCED, reduction_rule::QUASI_REDUCED, reduction_rule::IDENTITY_REDUCED}) {
                    if (!rel && rr == reduction_rule::IDENTITY_REDUCED) continue;
                    if (A.selected(c)) exhaustiveCase(c, rel, rt, rr);
                    ++c;
                }
    } else c = 10;
    if (A.selected(c)) witnessCase(c);
    ++c;
    for (long i = 0; i < ncases; i++, c++) {
        if (!A.selected(c)) continue;
        randomCase(A, c, kinds);
    }
    if (probes) runProbes(A);
    libCleanup();
    return 0;
}
FamilyReg reg("build", run, "C03 minterm / collection / constant / variable builders evaluate as specified");
}  // namespace
