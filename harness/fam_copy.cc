// Family `copy` (C10): COPY between every ordered pair of forest kinds of the same set/relation
// shape must convert the function pointwise by the scalar conversion of the pair; copying back must
// give the identical original edge exactly when the tables are equal.
//
// Per case: one domain, a source forest F (kind ka) and a target forest G (kind kb) — the ordered
// pair is taken from a seed-dependent permutation of ALL pairs, so a run of >= #pairs cases covers
// every pair (`stat pair.<ka>><kb>`); G may be a second forest of the same kind and rule, or F
// itself.  Several source functions per case (random tables, constants, functions ignoring
// variables, identity / singleton patterns for relations, near-duplicates of an earlier function so
// that compute-table entries of one copy are hit by the next one at other levels / indices).
//
// Records (all understood by the generic acceptor + Driver/P_Copy.lean):
//   input A.. / table A F / resforest G / op R COPY A / table R G / table A F / unchanged A /
//   resforest F / op B COPY R / table B F / eq A B <0|1> / warm copy W + eq R W / audits / roots /
//   after release + garbage (handle reuse) a third copy C / err R COPY A <CODE> for unsupported pairs
//   (`scalar copydom other` announces that the next COPY goes to a forest over ANOTHER domain).
//
// Options:  --f1 1   allow +infinity in EV+/index-set sources that go through the push-down copy
//                    (FINDING F-C10-1; default: steer away)
//           --f2 1   allow zeros in identity-reduced MT/EV* sources copied to EV+ (FINDING F-C10-2)
//           --f3 1   allow index-set forests as targets of a copy from another forest (FINDING F-C10-3)
//           --exh 1     one exhaustive case per pair on the tiny domain (default: thorough tier only)
//           --probes 0  do not append the small probe cases that reproduce the three findings
#include "common.h"
using namespace MEDDLY;
using namespace mdh;

namespace {

typedef edge_labeling EL;
typedef range_type RT;
typedef reduction_rule RR;

std::string code(const Kind& k) {
    std::string s = k.rel ? "r" : "s";
    s += k.rt == RT::BOOLEAN ? "B" : k.rt == RT::INTEGER ? "I" : "R";
    s += k.el == EL::MULTI_TERMINAL ? "mt" : k.el == EL::EVPLUS ? "ep" : k.el == EL::EVTIMES ? "et" : "ix";
    s += k.rr == RR::FULLY_REDUCED ? "F" : k.rr == RR::QUASI_REDUCED ? "Q" : "I";
    return s;
}
bool isEVPlike(const Kind& k) { return k.el == EL::EVPLUS || k.el == EL::INDEX_SET; }
bool isIdx(const Kind& k) { return k.el == EL::INDEX_SET; }

std::vector<Kind> kindsOf(bool rel) {
    std::vector<Kind> v = allKinds(!rel, rel);
    if (!rel)
        for (RR rr : {RR::FULLY_REDUCED, RR::QUASI_REDUCED}) {
            Kind k; k.rel = false; k.rt = RT::INTEGER; k.el = EL::INDEX_SET; k.rr = rr;
            v.push_back(k);
        }
    return v;
}

struct Pair { Kind a, b; };

// the factory's choice, as far as the harness needs it: does +infinity survive?
bool keepsInf(const Kind& a, const Kind& b, bool sameForest) {
    if (sameForest) return true;
    return isEVPlike(a) && b.el == EL::EVPLUS;
}

// ------------------------------------------------------------------ value pools
// p2: only powers of two (EV* normalisation and float products stay exact)
Val pickValue(Rng& r, const Kind& k, bool p2, bool allowZero) {
    for (;;) {
        Val v;
        if (!p2) v = randomValue(r, k, true);
        else if (k.rt == RT::BOOLEAN) v = Val::boolean(r.chance(1, 2));
        else if (k.rt == RT::INTEGER) {
            if (isEVPlike(k)) {
                static const long pool[] = {0, 1, 2, 4, 1, 2};
                static const long poolr[] = {0, 1, 2, 4, -1, -2};
                v = r.chance(1, 6) ? Val::inf() : Val::integer((k.rel ? poolr : pool)[r.below(6)]);
            } else {
                static const long pool[] = {0, 1, 2, 4, -1, -2};
                v = Val::integer(pool[r.below(6)]);
            }
        } else {
            static const double pool[] = {0.0, 0.25, 0.5, 1.0, 2.0, 4.0, -1.0, -2.0, -0.5};
            v = Val::real(pool[r.below(9)]);
        }
        if (!allowZero && v == k.zero()) continue;
        return v;
    }
}

struct Gen {
    const Dom& D;
    Kind k;
    bool p2;
    Gen(const Dom& d, const Kind& kk, bool p) : D(d), k(kk), p2(p) {}
    unsigned npos() const { return D.K() * (k.rel ? 2 : 1); }
    int sizeAt(unsigned p) const { return D.sizes[k.rel ? (p - 1) / 2 : p - 1]; }   // p = 1..npos
    std::vector<int> digits(size_t idx) const {
        std::vector<int> d(npos() + 1, 0);
        for (unsigned p = 1; p <= npos(); p++) { d[p] = int(idx % size_t(sizeAt(p))); idx /= size_t(sizeAt(p)); }
        return d;
    }
    size_t card() const { return D.card(k.rel); }

    std::vector<Val> density(Rng& r, unsigned dens) const {
        std::vector<Val> t(card(), k.zero());
        for (auto& v : t) if (r.below(100) < dens) v = pickValue(r, k, p2, false);
        return t;
    }
    std::vector<Val> constant(Rng& r) const {
        Val v = r.chance(1, 4) ? k.zero() : pickValue(r, k, p2, true);
        return std::vector<Val>(card(), v);
    }
    // depends only on the positions in `mask`; value table drawn lazily
    std::vector<Val> masked(Rng& r, const std::vector<bool>& mask, unsigned dens) const {
        std::map<std::vector<int>, Val> memo;
        std::vector<Val> t(card());
        for (size_t i = 0; i < t.size(); i++) {
            std::vector<int> d = digits(i), key;
            for (unsigned p = 1; p <= npos(); p++) if (mask[p]) key.push_back(d[p]);
            auto it = memo.find(key);
            if (it == memo.end()) {
                Val v = r.below(100) < dens ? pickValue(r, k, p2, false) : k.zero();
                it = memo.insert({key, v}).first;
            }
            t[i] = it->second;
        }
        return t;
    }
    std::vector<Val> ignoring(Rng& r) const {
        std::vector<bool> mask(npos() + 1, false);
        for (unsigned p = 1; p <= npos(); p++) mask[p] = r.chance(1, 2);
        static const unsigned dens[] = {30, 60, 100};
        return masked(r, mask, dens[r.below(3)]);
    }
    // relations: per variable one of ident / free / ignore / column-constant / row-only / column-only
    std::vector<Val> patterned(Rng& r, bool forceSingleton = false) const {
        unsigned K = D.K();
        std::vector<int> mode(K + 1), cst(K + 1);
        std::vector<bool> mask(npos() + 1, false);
        unsigned forced = forceSingleton ? unsigned(r.range(1, int(K))) : 0;
        for (unsigned v = 1; v <= K; v++) {
            mode[v] = int(r.below(9));          // 0,1 ident  2 free  3 ignore  4 primed == const  5 row only  6 column only
            if (mode[v] >= 7 || v == forced) mode[v] = 4;   // (primed == const more likely: singleton nodes below a skipped unprimed level)
            cst[v] = int(r.below(unsigned(D.sizes[v - 1])));
            if (mode[v] == 2) mask[2 * v] = mask[2 * v - 1] = true;
            if (mode[v] == 5) mask[2 * v] = true;
            if (mode[v] == 6) mask[2 * v - 1] = true;
        }
        static const unsigned dens[] = {60, 100, 100};
        std::vector<Val> t = masked(r, mask, dens[r.below(3)]);
        for (size_t i = 0; i < t.size(); i++) {
            std::vector<int> d = digits(i);
            for (unsigned v = 1; v <= K; v++) {
                if (mode[v] <= 1 && d[2 * v] != d[2 * v - 1]) t[i] = k.zero();
                if (mode[v] == 4 && d[2 * v - 1] != cst[v]) t[i] = k.zero();
            }
        }
        if (r.chance(1, 3) && !forceSingleton) {          // spoil the pattern at one assignment
            size_t i = r.below(unsigned(t.size()));
            t[i] = pickValue(r, k, p2, true);
        }
        return t;
    }
    std::vector<Val> near(Rng& r, std::vector<Val> t) const {
        int n = r.range(1, 2);
        for (int j = 0; j < n; j++) t[r.below(unsigned(t.size()))] = pickValue(r, k, p2, true);
        return t;
    }
};

// build an index set: membership = t[i] != inf; the numbering is whatever the library assigns
void buildIndexSet(const Dom& D, forest* F, const std::vector<Val>& t, dd_edge& out) {
    Kind kb; kb.rel = false; kb.rt = RT::BOOLEAN; kb.el = EL::MULTI_TERMINAL; kb.rr = RR::FULLY_REDUCED;
    forest* T = makeForest(D.d, kb, Pol());
    {
        std::vector<Val> tb(t.size());
        for (size_t i = 0; i < t.size(); i++) tb[i] = Val::boolean(t[i].t != Val::INF);
        dd_edge s(T);
        buildFromTable(D, T, kb, tb, s);
        out.attach(F);
        apply(CONVERT_TO_INDEX_SET, s, out);
    }
    forest::destroy(T);
}

void buildSource(const Dom& D, forest* F, const Kind& k, const std::vector<Val>& t, dd_edge& out) {
    if (isIdx(k)) buildIndexSet(D, F, t, out);
    else buildFromTable(D, F, k, t, out);
}

struct Ctx {
    const Dom& D;
    forest* F; Kind ka; std::string fn;
    forest* G; Kind kb; std::string gn;
};

// one COPY with its records; returns false when the library threw
bool doCopy(const Dom& D, const std::string& res, const std::string& gn, const dd_edge& src,
            const std::string& srcName, dd_edge& out) {
    emit("resforest %s", gn.c_str());
    try {
        apply(COPY, src, out);
    } catch (error& e) {
        emit("err %s COPY %s %s", res.c_str(), srcName.c_str(), errName(e));
        emit("note thrown-at %s:%u", e.getFile(), e.getLine());
        STATS.hit(std::string("err.") + errName(e));
        return false;
    }
    emit("op %s COPY %s", res.c_str(), srcName.c_str());
    emitTable(res, gn, D, out);
    return true;
}

// steering switches (default: away from the three findings, see NOTES.md)
struct Steer { bool f1, f2, f3; };

void oneCase(long c, const Args& A, Rng& r, const Pair& pr, const Steer& st) {
    const Kind ka = pr.a, kb = pr.b;
    bool rel = ka.rel;
    bool sameKind = ka.rt == kb.rt && ka.el == kb.el && ka.rr == kb.rr;
    // F-C10-3: COPY into an index-set forest other than the source's own is broken; skip those pairs
    if (st.f3 && isIdx(kb) && !sameKind) { STATS.hit("skip.f3"); return; }
    Dom D = randomDom(r, 1, rel ? (A.thorough() ? 3 : 2) : 4, A.thorough() ? 4 : 3, rel ? 700 : 260, rel);
    if (rel && D.K() == 1 && r.chance(1, 2)) D.sizes.push_back(r.range(2, 3));
    D.create();
    beginCase(c);
    emits(D.str());
    bool sameForest = sameKind && (r.chance(1, 3) || (st.f3 && isIdx(kb)));
    Pol pa = r.chance(2, 3) ? Pol::random(r) : Pol();
    Pol pb = r.chance(2, 3) ? Pol::random(r) : Pol();
    forest* F = makeForest(D.d, ka, pa);
    forest* G = sameForest ? F : makeForest(D.d, kb, pb);
    std::string fn = "F", gn = sameForest ? "F" : "G";
    emitForest("F", F, ka, pa);
    if (!sameForest) emitForest("G", G, kb, pb);
    STATS.hit("pair." + code(ka) + ">" + code(kb));
    STATS.hit(sameForest ? "forests.same" : sameKind ? "forests.distinct-same-kind" : "forests.different-kind");

    bool p2 = ka.el == EL::EVTIMES || kb.el == EL::EVTIMES;
    bool steerInf = st.f1 && isEVPlike(ka) && !keepsInf(ka, kb, sameForest);
    bool steerZero = st.f2 && ka.rr == RR::IDENTITY_REDUCED && !isEVPlike(ka) && kb.el == EL::EVPLUS && !sameForest;
    if (steerInf) STATS.hit("steer.f1");
    if (steerZero) STATS.hit("steer.f2");
    Gen gen(D, ka, p2);

    struct Fn { std::string a; dd_edge A, R, B, W; std::vector<Val> t; bool okR; bool okB; };
    std::vector<Fn*> fns;
    int nf = r.range(2, 4);
    for (int j = 0; j < nf; j++) {
        Fn* f = new Fn{"A" + std::to_string(j), dd_edge(F), dd_edge(G), dd_edge(F), dd_edge(G), {}, false, false};
        fns.push_back(f);
        const char* variant = "";
        unsigned v = r.below(rel ? 10 : 8);
        // identity-reduced forests: identity / singleton patterns are what their special cases are about
        if (rel && (ka.rr == RR::IDENTITY_REDUCED || kb.rr == RR::IDENTITY_REDUCED) && r.chance(1, 2)) v = 9;
        if (j > 0 && r.chance(1, 3)) { f->t = gen.near(r, fns[size_t(r.below(unsigned(j)))]->t); variant = "near"; }
        else if (v == 0) { f->t = gen.constant(r); variant = "constant"; }
        else if (v <= 2) { f->t = gen.ignoring(r); variant = "ignoring"; }
        else if (v >= 7 && rel) {
            bool force = ka.rr == RR::IDENTITY_REDUCED && kb.rr == RR::IDENTITY_REDUCED && r.chance(1, 2);
            f->t = gen.patterned(r, force); variant = force ? "patterned-singleton" : "patterned";
        }
        else { static const unsigned dens[] = {0, 10, 30, 50, 80, 100}; f->t = gen.density(r, dens[r.below(6)]); variant = "density"; }
        // real -> integer truncates: sub-unit values become NEW zeros, so nodes that were legal in the source
        // turn into redundant / singleton / transparent nodes of the target
        if (ka.rt == RT::REAL && kb.rt == RT::INTEGER && r.chance(1, 2)) {
            static const double sub[] = {0.5, -0.5, 0.25, 0.5};
            for (auto& x : f->t) if (x != ka.zero() && r.chance(1, 2)) x = Val::real(sub[r.below(p2 ? 4 : 2)]);
            STATS.hit("fn.subunit");
        }
        if (steerInf) for (auto& x : f->t) while (x.t == Val::INF) x = pickValue(r, ka, p2, true);
        if (steerZero) for (auto& x : f->t) if (x == ka.zero()) x = pickValue(r, ka, p2, false);
        STATS.hit(std::string("fn.") + variant);
        buildSource(D, F, ka, f->t, f->A);
        if (!isIdx(ka)) emit("input %s %s", f->a.c_str(), tableStr(f->t).c_str());
        emitTable(f->a, fn, D, f->A);
        std::string rn = "R" + std::to_string(j), bn = "B" + std::to_string(j), wn = "W" + std::to_string(j);
        // there
        f->okR = doCopy(D, rn, gn, f->A, f->a, f->R);
        emitTable(f->a, fn, D, f->A);
        emit("unchanged %s", f->a.c_str());
        if (!f->okR) continue;
        STATS.hit("copy.there");
        // and back
        bool backOK = true;
        if (!sameForest) {
            // the way back may itself be one of the finding triggers: steer away from exactly those
            std::vector<Val> tr = tableOf(D, f->R);
            bool hasInf = false, hasZero = false;
            for (auto& x : tr) { if (x.t == Val::INF) hasInf = true; if (x == kb.zero()) hasZero = true; }
            if (st.f1 && isEVPlike(kb) && !keepsInf(kb, ka, false) && hasInf) { backOK = false; STATS.hit("steer.back.f1"); }
            if (st.f2 && kb.rr == RR::IDENTITY_REDUCED && !isEVPlike(kb) && ka.el == EL::EVPLUS && hasZero) { backOK = false; STATS.hit("steer.back.f2"); }
            if (st.f3 && isIdx(ka)) { backOK = false; STATS.hit("steer.back.f3"); }
        }
        if (backOK && (f->okB = doCopy(D, bn, fn, f->R, rn, f->B))) {
            emitEq(f->a, bn, f->A, f->B);
            STATS.hit(f->A == f->B ? "roundtrip.identical" : "roundtrip.lossy");
            emitTable(rn, gn, D, f->R);
            emit("unchanged %s", rn.c_str());
        }
        // warm compute table: the same copy again must give the same edge
        if (r.chance(1, 2)) {
            if (doCopy(D, wn, gn, f->A, f->a, f->W)) { emitEq(rn, wn, f->R, f->W); STATS.hit("copy.warm"); }
        }
    }
    emitAudit("F", F, ka);
    if (!sameForest) emitAudit("G", G, kb);
    for (size_t j = 0; j < fns.size(); j++) {
        Fn* f = fns[j];
        if (!f->okR) continue;
        emitRoot("R" + std::to_string(j), gn, f->R, kb);
        if (f->okB) emitRoot("B" + std::to_string(j), fn, f->B, ka);
    }
    // release the results, (maybe) clear the caches, recycle handles with garbage, copy again
    {
        std::vector<std::vector<Val>> firstTables;
        for (Fn* f : fns) { firstTables.push_back(f->okR ? tableOf(D, f->R) : std::vector<Val>()); }
        for (Fn* f : fns) { f->R.detach(); f->W.detach(); f->B.detach(); }
        int mode = int(r.below(3));     // 0 keep caches  1 clear the target's  2 clear both
        if (mode >= 1) G->removeAllComputeTableEntries();
        if (mode == 2) F->removeAllComputeTableEntries();
        STATS.hit("churn.mode" + std::to_string(mode));
        int garbage = r.range(0, 4);
        if (!isIdx(kb))
            for (int g = 0; g < garbage; g++) {
                dd_edge junk(G);
                Gen gg(D, kb, p2);
                try { buildFromTable(D, G, kb, gg.density(r, 50), junk); } catch (error&) { STATS.hit("junk.err"); }
            }
        for (size_t j = 0; j < fns.size(); j++) {
            Fn* f = fns[j];
            if (!f->okR) continue;
            f->R.attach(G);
            std::string cn = "C" + std::to_string(j);
            if (doCopy(D, cn, gn, f->A, f->a, f->R)) {
                STATS.hit("copy.after-churn");
                emit("expect recopy-same-table 1 %d", int(tableOf(D, f->R) == firstTables[j]));
            } else f->okR = false;
        }
        for (size_t j = 0; j + 1 < fns.size(); j++)
            if (fns[j]->okR && fns[j + 1]->okR)
                emitEq("C" + std::to_string(j), "C" + std::to_string(j + 1), fns[j]->R, fns[j + 1]->R);
        if (!sameForest) emitAudit("G", G, kb); else emitAudit("F", F, ka);
        for (size_t j = 0; j < fns.size(); j++)
            if (fns[j]->okR) emitRoot("C" + std::to_string(j), gn, fns[j]->R, kb);
    }
    // unsupported pairs: the other shape over the same domain; the same shape over another domain
    if (r.chance(1, 6) && !fns.empty()) {
        Kind ko = r.pick(kindsOf(!rel));
        forest* H = makeForest(D.d, ko, Pol());
        emitForest("H", H, ko, Pol());
        {
            dd_edge res(H);
            doCopy(D, "RH", "H", fns[0]->A, fns[0]->a, res);
            STATS.hit("unsupported.shape");
        }
        forest::destroy(H);
        Dom D2; D2.sizes = D.sizes;
        if (r.chance(1, 2)) D2.sizes.push_back(2);   // same sizes but a different domain object also counts
        D2.create();
        forest* H2 = makeForest(D2.d, kb, Pol());
        emitForest("H2", H2, kb, Pol());
        emit("scalar copydom other");
        {
            dd_edge res(H2);
            doCopy(D2, "RH2", "H2", fns[0]->A, fns[0]->a, res);
            STATS.hit("unsupported.domain");
        }
        // other shape AND other domain: the factory's shape test comes first
        {
            forest* H3 = makeForest(D2.d, ko, Pol());
            emitForest("H3", H3, ko, Pol());
            dd_edge res(H3);
            doCopy(D2, "RH3", "H3", fns[0]->A, fns[0]->a, res);
            STATS.hit("unsupported.shape+domain");
            res.detach();
            forest::destroy(H3);
        }
        emit("scalar copydom same");
        forest::destroy(H2);
        D2.destroy();
    }
    for (Fn* f : fns) delete f;
    F->removeAllComputeTableEntries();
    if (!sameForest) G->removeAllComputeTableEntries();
    emit("expect leak-F 0 %ld", F->getCurrentNumNodes());
    if (!sameForest) emit("expect leak-G 0 %ld", G->getCurrentNumNodes());
    endCase();
    forest::destroy(F);
    if (!sameForest) forest::destroy(G);
    D.destroy();
}

// ------------------------------------------------------------------ probe cases
// Small fixed inputs that still reproduce the findings the generator steers away from.  The result
// edges are called RF<n>.. so that their DIFF lines can be told apart (known_findings `match`).
struct Probe { int finding; Kind a, b; std::vector<int> sizes; std::vector<std::vector<Val>> tables; };

void probeCase(long c, const Probe& P) {
    Dom D; D.sizes = P.sizes;
    D.create();
    beginCase(c);
    emits(D.str());
    forest* F = makeForest(D.d, P.a, Pol());
    forest* G = makeForest(D.d, P.b, Pol());
    // distinctive forest names so that every diff of a probe case (also certificate diffs) carries the finding's tag
    const std::string FN = "FP" + std::to_string(P.finding), GN = "GP" + std::to_string(P.finding);
    emitForest(FN, F, P.a, Pol());
    emitForest(GN, G, P.b, Pol());
    emit("note probe finding F-C10-%d %s > %s", P.finding, code(P.a).c_str(), code(P.b).c_str());
    std::vector<dd_edge> src, res;
    std::vector<std::string> names;
    for (size_t j = 0; j < P.tables.size(); j++) {
        src.emplace_back(F); res.emplace_back(G);
        std::string an = "A" + std::to_string(j), rn = "RF" + std::to_string(P.finding) + char('a' + j);
        buildSource(D, F, P.a, P.tables[j], src[j]);
        if (!isIdx(P.a)) emit("input %s %s", an.c_str(), tableStr(P.tables[j]).c_str());
        emitTable(an, FN, D, src[j]);
        doCopy(D, rn, GN, src[j], an, res[j]);
        names.push_back(rn);
    }
    for (size_t j = 0; j + 1 < names.size(); j++) emitEq(names[j], names[j + 1], res[j], res[j + 1]);
    emitAudit(GN, G, P.b);
    for (size_t j = 0; j < names.size(); j++) emitRoot(names[j], GN, res[j], P.b);
    endCase();
    src.clear(); res.clear();
    forest::destroy(F);
    forest::destroy(G);
    D.destroy();
}

// ------------------------------------------------------------------ exhaustive cases (thorough tier)
// every function over {transparent, a, b}^4 on the tiny domain (sets: (2,2); relations: one variable of
// size 2), copied once; functions that contain a finding trigger of the pair are left out
void exhaustiveCase(long c, const Pair& pr, const Steer& st) {
    const Kind ka = pr.a, kb = pr.b;
    bool sameKind = ka.rt == kb.rt && ka.el == kb.el && ka.rr == kb.rr;
    if (st.f3 && isIdx(kb)) return;
    Dom D; D.sizes = ka.rel ? std::vector<int>{2} : std::vector<int>{2, 2};
    D.create();
    beginCase(c);
    emits(D.str());
    forest* F = makeForest(D.d, ka, Pol());
    forest* G = makeForest(D.d, kb, Pol());
    emitForest("F", F, ka, Pol());
    emitForest("G", G, kb, Pol());
    STATS.hit("exhaustive.pairs");
    (void) sameKind;
    Val pool[3] = {ka.zero(), Val(), Val()};
    switch (ka.rt) {
        case RT::BOOLEAN: pool[1] = Val::boolean(true); pool[2] = Val::boolean(true); break;
        case RT::INTEGER: pool[1] = Val::integer(1); pool[2] = Val::integer(isEVPlike(ka) ? 0 : 2); break;
        default: pool[1] = Val::real(0.5); pool[2] = Val::real(2.0); break;
    }
    int base = ka.rt == RT::BOOLEAN ? 2 : 3;
    int total = 1; for (int i = 0; i < 4; i++) total *= base;
    bool f1pair = st.f1 && isEVPlike(ka) && !keepsInf(ka, kb, false);
    bool f2pair = st.f2 && ka.rr == RR::IDENTITY_REDUCED && !isEVPlike(ka) && kb.el == EL::EVPLUS;
    std::vector<dd_edge> held;
    for (int code = 0; code < total; code++) {
        std::vector<Val> t(4);
        int x = code; bool trigger = false;
        for (int i = 0; i < 4; i++) { t[size_t(i)] = pool[x % base]; x /= base; }
        for (auto& v : t) { if (f1pair && v.t == Val::INF) trigger = true; if (f2pair && v == ka.zero()) trigger = true; }
        if (trigger) { STATS.hit("exhaustive.skipped-trigger"); continue; }
        if (isIdx(ka)) { for (auto& v : t) if (v.t != Val::INF) v = Val::integer(0); }
        dd_edge a(F), r(G);
        buildSource(D, F, ka, t, a);
        std::string an = "A" + std::to_string(code), rn = "R" + std::to_string(code);
        if (!isIdx(ka)) emit("input %s %s", an.c_str(), tableStr(t).c_str());
        emitTable(an, "F", D, a);
        if (doCopy(D, rn, "G", a, an, r)) { held.push_back(r); STATS.hit("exhaustive.copies"); }
    }
    emitAudit("G", G, kb);
    held.clear();
    endCase();
    forest::destroy(F);
    forest::destroy(G);
    D.destroy();
}

int run(const Args& A) {
    libInit();
    // all ordered pairs of kinds of the same shape, in a seed-dependent order
    std::vector<Pair> pairs;
    for (int rel = 0; rel < 2; rel++) {
        std::vector<Kind> ks = kindsOf(rel);
        for (auto& a : ks) for (auto& b : ks) pairs.push_back({a, b});
    }
    {
        Rng pr(Rng::mix(A.seed, 0xC0FFEEull));
        for (size_t i = pairs.size(); i > 1; i--) std::swap(pairs[i - 1], pairs[pr.below(unsigned(i))]);
    }
    emit("note pairs %zu", pairs.size());
    Steer st{!A.getl("f1", 0), !A.getl("f2", 0), !A.getl("f3", 0)};
    long ncases = A.cases > 0 ? A.cases : (A.thorough() ? 24 * long(pairs.size()) : 6 * long(pairs.size()));
    for (long c = 0; c < ncases; c++) {
        if (!A.selected(c)) continue;
        Rng r(Rng::mix(A.seed, uint64_t(c)));
        oneCase(c, A, r, pairs[size_t(c) % pairs.size()], st);
    }
    if (A.getl("exh", A.thorough() ? 1 : 0)) {
        // one exhaustive case per pair, numbered after the random cases and the probes
        for (size_t i = 0; i < pairs.size(); i++) {
            long c = ncases + 100 + long(i);
            if (!A.selected(c)) continue;
            exhaustiveCase(c, pairs[i], st);
        }
    }
    if (A.getl("probes", 1)) {
        auto K = [](bool rel, RT rt, EL el, RR rr) { Kind k; k.rel = rel; k.rt = rt; k.el = el; k.rr = rr; return k; };
        auto I = [](long v) { return Val::integer(v); };
        auto Bo = [](bool v) { return Val::boolean(v); };
        auto Re = [](double v) { return Val::real(v); };
        const Val inf = Val::inf();
        std::vector<Probe> probes = {
            // F-C10-1: +infinity through the push-down copy
            {1, K(false, RT::INTEGER, EL::EVPLUS, RR::FULLY_REDUCED), K(false, RT::INTEGER, EL::MULTI_TERMINAL, RR::FULLY_REDUCED),
             {2, 2}, {{I(3), inf, I(5), inf}}},
            {1, K(false, RT::INTEGER, EL::INDEX_SET, RR::FULLY_REDUCED), K(false, RT::INTEGER, EL::MULTI_TERMINAL, RR::QUASI_REDUCED),
             {2, 2}, {{I(0), inf, I(1), inf}}},
            {1, K(true, RT::INTEGER, EL::EVPLUS, RR::IDENTITY_REDUCED), K(true, RT::REAL, EL::EVTIMES, RR::FULLY_REDUCED),
             {2}, {{I(1), inf, I(2), I(4)}}},
            // F-C10-2: implicit zeros of an identity-reduced source become +infinity in EV+
            {2, K(true, RT::INTEGER, EL::MULTI_TERMINAL, RR::IDENTITY_REDUCED), K(true, RT::INTEGER, EL::EVPLUS, RR::IDENTITY_REDUCED),
             {2}, {{I(2), I(0), I(0), I(2)}}},
            {2, K(true, RT::BOOLEAN, EL::MULTI_TERMINAL, RR::IDENTITY_REDUCED), K(true, RT::INTEGER, EL::EVPLUS, RR::FULLY_REDUCED),
             {2}, {{Bo(true), Bo(false), Bo(false), Bo(true)}}},
            {2, K(true, RT::REAL, EL::EVTIMES, RR::IDENTITY_REDUCED), K(true, RT::INTEGER, EL::EVPLUS, RR::QUASI_REDUCED),
             {2}, {{Re(2.0), Re(0.0), Re(0.0), Re(2.0)}}},
            // F-C10-3: index-set targets: +infinity lost between two index-set forests; the cardinality header of the
            // copied nodes is never written, so equal functions need not be equal edges
            {3, K(false, RT::INTEGER, EL::INDEX_SET, RR::FULLY_REDUCED), K(false, RT::INTEGER, EL::INDEX_SET, RR::FULLY_REDUCED),
             {2, 2}, {{I(0), inf, I(1), inf}}},
            {3, K(false, RT::REAL, EL::MULTI_TERMINAL, RR::FULLY_REDUCED), K(false, RT::INTEGER, EL::INDEX_SET, RR::QUASI_REDUCED),
             {3, 3}, {{Re(0), Re(0.5), Re(0), Re(0), Re(0), Re(0), Re(0), Re(0), Re(0)},
                      {Re(-0.5), Re(-0.5), Re(-0.5), Re(-0.5), Re(-0.5), Re(-0.5), Re(-0.5), Re(-0.5), Re(-0.5)}}},
        };
        for (size_t i = 0; i < probes.size(); i++) {
            long c = ncases + long(i);
            if (!A.selected(c)) continue;
            STATS.hit("probe.F-C10-" + std::to_string(probes[i].finding));
            probeCase(c, probes[i]);
        }
    }
    libCleanup();
    return 0;
}
FamilyReg reg("copy", run, "C10 COPY across all ordered pairs of forest kinds, round trips, caches, handle reuse");
}  // namespace
