// Family `reorder` (C13): forest::reorderVariables with every scheduling heuristic and swap method
// must leave every held edge denoting the same function of the VARIABLES, keep the forest canonical
// under its reduction rule, and leave other forests over the same domain untouched.
//
// API convention established from the source (dd_edge.cc evaluator_helper*, minterms.h, tests/chk_reorder.cc):
//   a minterm is indexed by LEVEL: dd_edge::evaluate reads m.from(level of the node).  After
//   F->reorderVariables(l2v) level i holds variable l2v[i] (getVariableOrder), so the value of variable v
//   has to be stored at index getLevelByVar(v).  Hence
//     * the BY-VARIABLE table of an edge  tV[idx(v_1..v_K)] = evaluate(m with m[i] = v_{l2v[i]})  must be
//       IDENTICAL before and after a reordering       (records `table E F …` + `unchanged E`), and
//     * the raw BY-LEVEL table (what common.cc's tableOf prints; digits = levels, sizes = level sizes)
//       is the corresponding PERMUTATION of it            (records `table E@L F …` + `permcheck E E@L F`).
//   The dump of a reordered forest is certified against the shape whose sizes are listed per LEVEL:
//   the harness re-emits `dom <size of level 1> … <size of level K>` before `audit F` / `root E@L F …`
//   (the generic acceptor builds the Shape from the latest `dom`) and re-emits the by-variable `dom`
//   afterwards.  `root` records name the by-level alias E@L, so the model evaluation of the dumped
//   structure is compared with the by-level table.
//
// Case numbers:
//   0..7   F3 probes: one per heuristic, run in a forked child (a sanitizer abort or a heap corruption
//          cannot take the transcript down); record `probe F3 <heuristic> <flavour> rc <n>`
//          (rc 0 ok, 42 tables changed, 43 order != target, 128+SIGVTALRM = CPU budget exhausted, else crash)
//   8      LEVEL-swap probe (in process): relation forest created with setLevelSwap(), sink_down
//   9      LEVEL-swap hang probe (forked child with a timer): lowest_cost + setLevelSwap()
//   10     IDSZ probe: (identity-reduced) relation, variables of sizes (3,2), one variable swap
//   11..15 reserved
//   16..   main cases: (kind, heuristic) by case number, everything else random
// Options (all "auto" by default = decided by a silent probe in a child process):
//          --f3 auto|all|avoid   (auto: under ASan only the heuristics whose probe was clean are used in main
//                                 cases; plain flavour uses all eight - with K <= 5 the one-int overflow stays
//                                 inside malloc's slack), --level-swap auto|0|1 (1: LEVEL-swap forests in main cases),
//          --evp 0|1 (0: skip the EV+ kinds), MDH_PROBE_STDERR=1 (keep the sanitizer report of the probes),
//          --rel-mixed auto|0|1 (1: relation forests over variables of different sizes are reordered in main cases)
#include "common.h"
#include <unistd.h>
#include <fcntl.h>
#include <sys/wait.h>
#include <sys/time.h>
#include <signal.h>
using namespace MEDDLY;
using namespace mdh;

namespace {

#if defined(__SANITIZE_ADDRESS__)
const bool UNDER_ASAN = true;
#else
const bool UNDER_ASAN = false;
#endif

struct Heur { const char* tag; void (*set)(policies&); };
const Heur HEUR[8] = {
    {"lowest_inversion", [](policies& p) { p.setLowestInversion(); }},
    {"highest_inversion", [](policies& p) { p.setHighestInversion(); }},
    {"sink_down", [](policies& p) { p.setSinkDown(); }},
    {"bring_up", [](policies& p) { p.setBringUp(); }},
    {"lowest_cost", [](policies& p) { p.setLowestCost(); }},
    {"lowest_memory", [](policies& p) { p.setLowestMemory(); }},
    {"random", [](policies& p) { p.setRandom(); }},
    {"larc", [](policies& p) { p.setLARC(); }},
};
const int H_SINK = 2, H_BRING = 3;

forest* makeForestR(domain* d, const Kind& k, const Pol& pl, int heur, bool levelSwap) {
    policies p(k.rel);
    p.useDefaults(k.rel);
    switch (k.rr) {
        case reduction_rule::FULLY_REDUCED: p.setFullyReduced(); break;
        case reduction_rule::QUASI_REDUCED: p.setQuasiReduced(); break;
        default: p.setIdentityReduced(); break;
    }
    switch (pl.storage) { case 0: p.setFullStorage(); break; case 1: p.setSparseStorage(); break; default: p.setFullOrSparse(); }
    switch (pl.del) { case 0: p.setNeverDelete(); break; case 1: p.setOptimistic(); break; default: p.setPessimistic(); }
    switch (pl.mm) {
        case 0: p.nodemm = ORIGINAL_GRID; break;
        case 1: p.nodemm = ARRAY_PLUS_GRID; break;
        case 2: p.nodemm = MALLOC_MANAGER; break;
        default: p.nodemm = HEAP_MANAGER; break;
    }
    HEUR[heur].set(p);
    if (levelSwap) p.setLevelSwap(); else p.setVarSwap();
    return forest::create(d, k.rel ? RELATION : SET, k.rt, k.el, p);
}

// ------------------------------------------------------------------ orders and tables
typedef std::vector<int> Order;      // o[0] = 0, o[i] = variable at level i

Order orderOf(const forest* F) {
    Order o(F->getNumVariables() + 1, 0);
    F->getVariableOrder(o.data());
    return o;
}
std::string orderStr(const Order& o) {
    std::string s;
    for (size_t i = 1; i < o.size(); i++) { if (i > 1) s += ' '; s += std::to_string(o[i]); }
    return s;
}
std::string orderStrC(const Order& o) {
    std::string s;
    for (size_t i = 1; i < o.size(); i++) { if (i > 1) s += ','; s += std::to_string(o[i]); }
    return s;
}
Order identityOrder(unsigned K) { Order o(K + 1); for (unsigned i = 0; i <= K; i++) o[i] = int(i); return o; }
// domain whose "variable i" is the variable sitting at level i: tableOf(levelDom, e) is the raw by-level table
Dom levelDom(const Dom& D, const Order& o) {
    Dom L;
    for (size_t i = 1; i < o.size(); i++) L.sizes.push_back(D.sizes[size_t(o[i]) - 1]);
    return L;
}
// by-variable table: digits of the index = values of variables 1..K (variable 1 least significant,
// primed before unprimed); the minterm slot of variable v is its level
std::vector<Val> tableByVar(const Dom& D, const dd_edge& e, const Order& o) {
    const forest* F = e.getForest();
    bool rel = F->isForRelations();
    unsigned K = D.K();
    size_t n = D.card(rel);
    std::vector<Val> t(n);
    std::vector<int> un(K + 1), pr(K + 1);
    minterm m(F);
    for (size_t i = 0; i < n; i++) {
        size_t idx = i;
        for (unsigned v = 1; v <= K; v++) {
            size_t sz = size_t(D.sizes[v - 1]);
            if (rel) { pr[v] = int(idx % sz); idx /= sz; un[v] = int(idx % sz); idx /= sz; }
            else { un[v] = int(idx % sz); idx /= sz; }
        }
        for (unsigned lvl = 1; lvl <= K; lvl++) {
            int v = o[lvl];
            if (rel) m.setVars(lvl, un[v], pr[v]); else m.setVar(lvl, un[v]);
        }
        rangeval rv;
        e.evaluate(m, rv);
        t[i] = fromRangeval(rv);
    }
    return t;
}
// the by-level table that a by-variable table must turn into under order o (used to BUILD in a reordered
// forest; the acceptor checks observed tables with its own implementation of the same relation)
std::vector<Val> toLevelTable(const Dom& D, bool rel, const Order& o, const std::vector<Val>& tv) {
    unsigned K = D.K();
    Dom L = levelDom(D, o);
    size_t n = D.card(rel);
    std::vector<Val> tl(n);
    std::vector<int> un(K + 1), pr(K + 1);
    for (size_t i = 0; i < n; i++) {
        size_t idx = i;
        for (unsigned lvl = 1; lvl <= K; lvl++) {       // digits of the level index
            size_t sz = size_t(L.sizes[lvl - 1]);
            int v = o[lvl];
            if (rel) { pr[v] = int(idx % sz); idx /= sz; un[v] = int(idx % sz); idx /= sz; }
            else { un[v] = int(idx % sz); idx /= sz; }
        }
        size_t iv = 0, stride = 1;
        for (unsigned v = 1; v <= K; v++) {
            size_t sz = size_t(D.sizes[v - 1]);
            if (rel) { iv += size_t(pr[v]) * stride; stride *= sz; iv += size_t(un[v]) * stride; stride *= sz; }
            else { iv += size_t(un[v]) * stride; stride *= sz; }
        }
        tl[i] = tv[iv];
    }
    return tl;
}
void buildByVar(const Dom& D, forest* F, const Kind& k, const std::vector<Val>& tv, dd_edge& out) {
    Order o = orderOf(F);
    Dom L = levelDom(D, o);
    buildFromTable(L, F, k, toLevelTable(D, k.rel, o, tv), out);
}

struct Held { std::string name; dd_edge e; std::vector<Val> tv; };

// the part of the node store reachable from the held edges, as text (used to show that a bystander forest is
// not touched at all; unreachable nodes kept alive only by compute-table entries may legitimately disappear
// when another forest's reordering clears a shared compute table)
std::string storeText(forest* F, const Kind& k, const std::vector<node_handle>& rootsIn) {
    std::set<node_handle> seen;
    std::vector<node_handle> todo(rootsIn);
    while (!todo.empty()) {
        node_handle h = todo.back(); todo.pop_back();
        if (h <= 0 || !seen.insert(h).second) continue;
        unpacked_node* U = unpacked_node::newFromNode(F, h, FULL_ONLY);
        for (unsigned i = 0; i < U->getSize(); i++) todo.push_back(U->down(i));
        unpacked_node::Recycle(U);
    }
    std::string s;
    for (node_handle h : seen) {
        unpacked_node* U = unpacked_node::newFromNode(F, h, FULL_ONLY);
        // (incoming counts are left out: parents that are unreachable garbage may be collected meanwhile)
        s += std::to_string(h) + "@" + std::to_string(F->getNodeLevel(h)) + "[";
        for (unsigned i = 0; i < U->getSize(); i++) { s += childStr(F, k, U->down(i)); s += ','; }
        s += "]";
        unpacked_node::Recycle(U);
    }
    for (node_handle r : rootsIn) s += " r" + std::to_string(r);
    return s;
}
unsigned long hashText(const std::string& s) {
    unsigned long h = 1469598103934665603ul;
    for (unsigned char c : s) { h ^= c; h *= 1099511628211ul; }
    return h % 1000000007ul;
}

// ------------------------------------------------------------------ one forest under observation

struct Obs {
    std::string name;          // transcript name of the forest
    forest* F = nullptr;
    Kind k;
    Pol pol;
    std::vector<Held*> held;
    int heur = H_SINK;
    ~Obs() { for (Held* h : held) delete h; }
};

bool isBool(const Kind& k) { return k.el == edge_labeling::MULTI_TERMINAL && k.rt == range_type::BOOLEAN; }
bool isEVP(const Kind& k) { return k.el == edge_labeling::EVPLUS; }

// emit by-variable tables (+unchanged), by-level tables + permutation check, and (full) the certificate of
// the node store in the shape of the CURRENT order
void observe(const Dom& D, Obs& X, bool checkUnchanged, bool full) {
    Order o = orderOf(X.F);
    Dom L = levelDom(D, o);
    emit("order %s %s", X.name.c_str(), orderStr(o).c_str());
    std::set<std::string> bad;
    for (Held* h : X.held) {
        try {
            std::vector<Val> tv = tableByVar(D, h->e, o);
            std::vector<Val> tl = tableOf(L, h->e);
            if (checkUnchanged && !h->tv.empty() && tv != h->tv) markSuspect();
            emit("table %s %s %s", h->name.c_str(), X.name.c_str(), tableStr(tv).c_str());
            if (checkUnchanged) emit("unchanged %s", h->name.c_str());
            emit("table %s@L %s %s", h->name.c_str(), X.name.c_str(), tableStr(tl).c_str());
            emit("permcheck %s %s@L %s", h->name.c_str(), h->name.c_str(), X.name.c_str());
        } catch (error& e) {
            // evaluate() itself failed: the structure below the edge is malformed
            emit("note evaluate-threw %s %s:%u", h->name.c_str(), e.getFile(), e.getLine());
            emit("expect evaluate.%s ok %s", h->name.c_str(), errName(e));
            STATS.hit(std::string("evaluate.err.") + errName(e));
            bad.insert(h->name);
            markSuspect();
        }
    }
    if (full) {
        emits(L.str());                       // shape of the dump: sizes per LEVEL
        emitAudit(X.name, X.F, X.k);
        for (Held* h : X.held) if (!bad.count(h->name)) emitRoot(h->name + "@L", X.name, h->e, X.k);
        emits(D.str());                       // back to sizes per VARIABLE
        STATS.hit("observe.full");
    } else STATS.hit("observe.light");
    fflush(stdout);
}

const char* pickOp(Rng& r, const Kind& k) {
    if (isBool(k)) { static const char* o[] = {"UNION", "INTERSECTION", "DIFFERENCE"}; return o[r.below(3)]; }
    if (isEVP(k)) { static const char* o[] = {"PLUS", "MINIMUM", "MAXIMUM"}; return o[r.below(3)]; }
    static const char* o[] = {"PLUS", "MAXIMUM", "MINIMUM"};
    return o[r.below(3)];
}
void doApply(const char* op, const dd_edge& a, const dd_edge& b, dd_edge& c) {
    std::string s = op;
    if (s == "UNION") apply(UNION, a, b, c);
    else if (s == "INTERSECTION") apply(INTERSECTION, a, b, c);
    else if (s == "DIFFERENCE") apply(DIFFERENCE, a, b, c);
    else if (s == "PLUS") apply(PLUS, a, b, c);
    else if (s == "MAXIMUM") apply(MAXIMUM, a, b, c);
    else apply(MINIMUM, a, b, c);
}

// 1..n live edges sharing nodes: some from tables, some near-duplicates, some results of operations
void populate(const Dom& D, Obs& X, Rng& r, int n, const char* prefix) {
    int serial = 0;
    auto fresh = [&]() { Held* h = new Held{std::string(prefix) + std::to_string(serial++), dd_edge(X.F), {}}; X.held.push_back(h); return h; };
    static const unsigned dens[] = {5, 20, 50, 80, 100};
    while (int(X.held.size()) < n) {
        int how = X.held.empty() ? 0 : int(r.below(4));
        if (how <= 1) {
            Held* h = fresh();
            if (how == 1) {
                // near-duplicate of an earlier edge: shares most of its nodes
                h->tv = X.held[r.below(unsigned(X.held.size() - 1))]->tv;
                h->tv[r.below(unsigned(h->tv.size()))] = randomValue(r, X.k, true);
            } else if (r.chance(2, 5)) {
                // structured: identity patterns / free / fixed variables, so that the nodes rebuilt by a swap collide
                // with nodes that already exist (the duplicate-resolution path of the variable swap)
                h->tv = structuredTable(r, D, X.k, dens[1 + r.below(4)]);
                STATS.hit("edge.structured");
            } else h->tv = randomTable(r, D, X.k, dens[r.below(5)]);
            buildByVar(D, X.F, X.k, h->tv, h->e);
            emit("input %s %s", h->name.c_str(), tableStr(h->tv).c_str());
            emit("table %s %s %s", h->name.c_str(), X.name.c_str(), tableStr(tableByVar(D, h->e, orderOf(X.F))).c_str());
            STATS.hit("edge.table");
        } else {
            // result of an operation on two held edges (warms the compute table)
            Held* a = X.held[r.below(unsigned(X.held.size()))];
            Held* b = X.held[r.below(unsigned(X.held.size()))];
            const char* op = pickOp(r, X.k);
            dd_edge res(X.F);
            try {
                doApply(op, a->e, b->e, res);
            } catch (error& e) {
                emit("note populate-op-failed %s %s", op, errName(e));
                STATS.hit(std::string("populate.err.") + errName(e));
                continue;
            }
            Held* h = fresh();
            h->e = res;
            h->tv = tableByVar(D, h->e, orderOf(X.F));
            emit("op %s %s %s %s", h->name.c_str(), op, a->name.c_str(), b->name.c_str());
            emit("table %s %s %s", h->name.c_str(), X.name.c_str(), tableStr(h->tv).c_str());
            STATS.hit("edge.op");
        }
    }
}

// `reorder <forest> <heuristic> <var|level> <ok|err CODE> target <l2v…>`
bool doReorder(Obs& X, int heur, bool levelSwap, const Order& target) {
    std::string res = "ok";
    bool ok = true;
    try {
        X.F->reorderVariables(target.data());
    } catch (error& e) {
        res = std::string("err ") + errName(e);
        ok = false;
        emit("note thrown-at %s:%u", e.getFile(), e.getLine());
    }
    emit("reorder %s %s %s %s target %s", X.name.c_str(), HEUR[heur].tag, levelSwap ? "level" : "var", res.c_str(),
         orderStr(target).c_str());
    STATS.hit(std::string("reorder.") + HEUR[heur].tag);
    STATS.hit(std::string("reorder.result.") + (ok ? "ok" : "err"));
    fflush(stdout);
    return ok;
}

Order nthPermutation(unsigned K, unsigned long idx) {
    std::vector<int> pool;
    for (unsigned i = 1; i <= K; i++) pool.push_back(int(i));
    Order o(K + 1, 0);
    for (unsigned i = K; i >= 1; i--) {
        unsigned long f = 1;
        for (unsigned j = 2; j < i; j++) f *= j;       // (i-1)!
        unsigned long q = idx / f; idx %= f;
        o[i] = pool[q];
        pool.erase(pool.begin() + long(q));
    }
    return o;
}
unsigned long factorial(unsigned K) { unsigned long f = 1; for (unsigned j = 2; j <= K; j++) f *= j; return f; }
long inversionsBetween(const Order& from, const Order& to) {
    std::vector<int> rank(to.size(), 0);
    for (size_t i = 1; i < to.size(); i++) rank[size_t(to[i])] = int(i);
    long n = 0;
    for (size_t i = 1; i < from.size(); i++)
        for (size_t j = i + 1; j < from.size(); j++)
            if (rank[size_t(from[i])] > rank[size_t(from[j])]) ++n;
    return n;
}

// ------------------------------------------------------------------ watchdog and probes in a child process
// CPU-time budgets (ITIMER_VIRTUAL: independent of the load of the machine).  A reordering that does not
// terminate must not hang the whole check: the parent prints a `crash` record and exits.
void onCpuBudget(int) {
    static const char msg[] = "\ncrash cpu-budget-exhausted (reordering or follow-up operation does not terminate)\n";
    ssize_t ignored = write(1, msg, sizeof msg - 1);
    (void) ignored;
    _exit(5);
}
void setCpuBudget(long ms, void (*handler)(int)) {
    struct itimerval tv;
    memset(&tv, 0, sizeof tv);
    tv.it_value.tv_sec = ms / 1000;
    tv.it_value.tv_usec = (ms % 1000) * 1000;
    if (ms > 0) signal(SIGVTALRM, handler);
    setitimer(ITIMER_VIRTUAL, &tv, nullptr);
}
struct CaseBudget {
    explicit CaseBudget(long ms) { setCpuBudget(ms, onCpuBudget); }
    ~CaseBudget() { setCpuBudget(0, SIG_DFL); }
};
const int RC_CPU_BUDGET = 128 + SIGVTALRM;

int runInChild(const std::function<int()>& fn, long cpuMs) {
    fflush(stdout);
    fflush(stderr);
    pid_t pid = fork();
    if (pid < 0) return 99;
    if (pid == 0) {
        int fd = open("/dev/null", O_WRONLY);
        if (fd >= 0) dup2(fd, 1);
        // sanitizer reports of a probe would be mistaken for the cause of a later abnormal end of the run
        if (fd >= 0 && !getenv("MDH_PROBE_STDERR")) dup2(fd, 2);
        setCpuBudget(cpuMs, SIG_DFL);          // default action: the child dies with SIGVTALRM
        int rc = 41;
        try { rc = fn(); } catch (error&) { rc = 40; } catch (...) { rc = 41; }
        _exit(rc);
    }
    int st = 0;
    if (waitpid(pid, &st, 0) < 0) return 98;
    if (WIFEXITED(st)) return WEXITSTATUS(st);
    if (WIFSIGNALED(st)) return 128 + WTERMSIG(st);
    return 97;
}

// tiny reorder: 3 variables (sizes 2,3,2), one boolean function, target = reversal
// rc: 0 ok (target reached with the same function, or - LEVEL swap only - refused with everything intact),
//     42 function changed, 43 wrong order, 44 unexpected error
int tinyReorder(int heur, bool rel, bool levelSwap) {
    Dom D; D.sizes = {2, 3, 2}; D.create();
    Kind k; k.rel = rel;
    forest* F = makeForestR(D.d, k, Pol(), heur, levelSwap);
    Rng r(12345);
    std::vector<Val> tv = randomTable(r, D, k, 50);
    dd_edge e(F);
    buildByVar(D, F, k, tv, e);
    Order target = identityOrder(3);
    std::swap(target[1], target[3]);
    bool refused = false;
    try {
        F->reorderVariables(target.data());
    } catch (error& er) {
        if (!levelSwap) return 44;
        if (er.getCode() != error::NOT_IMPLEMENTED && er.getCode() != error::INVALID_OPERATION) return 44;
        refused = true;
    }
    int rc = 0;
    if (orderOf(F) != (refused ? identityOrder(3) : target)) rc = 43;
    else if (tableByVar(D, e, orderOf(F)) != tv) rc = 42;
    return rc;
}

// the IDSZ scenario (case 10) without output: 0 = both functions intact after the swap
int idszScenario() {
    Dom D; D.sizes = {3, 2}; D.create();
    Kind k; k.rel = true; k.rr = reduction_rule::IDENTITY_REDUCED;
    forest* F = makeForestR(D.d, k, Pol(), H_SINK, false);
    std::vector<Val> t1(D.card(true), Val::boolean(true)), t0 = t1;
    t0[19] = Val::boolean(false);
    dd_edge e0(F), e1(F);
    buildByVar(D, F, k, t0, e0);
    buildByVar(D, F, k, t1, e1);
    Order target = identityOrder(2);
    std::swap(target[1], target[2]);
    F->reorderVariables(target.data());
    if (tableByVar(D, e0, orderOf(F)) != t0 || tableByVar(D, e1, orderOf(F)) != t1) return 42;
    return 0;
}

// ------------------------------------------------------------------ minimiser (developer aid, --mini 1)
// smallest boolean relation over sizes (a,b) in an identity-reduced forest whose function changes (or whose
// evaluation throws) after one swap / after swapping there and back
int miniSearch(const Args& A) {
    int a = int(A.getl("a", 2)), b = int(A.getl("b", 2));
    int rule = int(A.getl("rule", 2));
    int found = 0;
    Dom D; D.sizes = {a, b}; D.create();
    size_t n = D.card(true);
    for (unsigned pop = unsigned(A.getl("minpop", 1)); pop <= unsigned(A.getl("maxpop", 4)) && found < 6; pop++) {
        std::vector<size_t> idx(pop);
        std::function<void(unsigned, size_t)> rec = [&](unsigned d, size_t from) {
            if (found >= 6) return;
            if (d == pop) {
                Kind k; k.rel = true; k.rr = rule == 2 ? reduction_rule::IDENTITY_REDUCED : rule == 1 ? reduction_rule::QUASI_REDUCED : reduction_rule::FULLY_REDUCED;
                forest* F = makeForestR(D.d, k, Pol(), H_SINK, false);
                bool inv = A.getl("invert", 0) != 0;
                std::vector<Val> tv(n, Val::boolean(inv));
                for (size_t i : idx) tv[i] = Val::boolean(!inv);
                std::string what;
                {
                    dd_edge e(F);
                    buildByVar(D, F, k, tv, e);
                    Order t = identityOrder(2); std::swap(t[1], t[2]);
                    try {
                        F->reorderVariables(t.data());
                        if (tableByVar(D, e, orderOf(F)) != tv) what = "changed-after-1-swap";
                        else {
                            Order id = identityOrder(2);
                            F->reorderVariables(id.data());
                            if (tableByVar(D, e, orderOf(F)) != tv) what = "changed-after-2-swaps";
                        }
                    } catch (error& er) { what = std::string("threw-") + errName(er); }
                }
                forest::destroy(F);
                if (!what.empty()) {
                    ++found;
                    std::string s;
                    for (size_t i : idx) s += " " + std::to_string(i);
                    emit("note mini sizes %d %d rule %d true-at%s : %s", a, b, rule, s.c_str(), what.c_str());
                }
                return;
            }
            for (size_t i = from; i < n; i++) { idx[d] = i; rec(d + 1, i + 1); }
        };
        rec(0, 0);
    }
    emit("note mini done found %d", found);
    D.destroy();
    return 0;
}

// random search with several edges: reports the failing configuration with the fewest defined entries
int miniSearch2(const Args& A) {
    int a = int(A.getl("a", 2)), b = int(A.getl("b", 2));
    int nedges = int(A.getl("edges", 2));
    long trials = A.getl("trials", 200000);
    Dom D; D.sizes = {a, b}; D.create();
    size_t n = D.card(true);
    Rng r(A.seed);
    size_t best = 1 << 30;
    for (long t = 0; t < trials; t++) {
        int rule = int(A.getl("rule", 2));
        Kind k; k.rel = true; k.rr = rule == 2 ? reduction_rule::IDENTITY_REDUCED : rule == 1 ? reduction_rule::QUASI_REDUCED : reduction_rule::FULLY_REDUCED;
        forest* F = makeForestR(D.d, k, Pol(), H_SINK, false);
        std::vector<std::vector<Val>> tv(nedges, std::vector<Val>(n, Val::boolean(false)));
        size_t cost = 0;
        for (auto& v : tv) {
            unsigned dens = r.below(3) == 0 ? 90 : r.below(60);
            for (auto& x : v) if (r.below(100) < dens) x = Val::boolean(true);
            size_t pc = 0; for (auto& x : v) pc += size_t(x.n);
            cost += std::min(pc, n - pc);
        }
        std::string what;
        {
            std::vector<dd_edge> es;
            for (int i = 0; i < nedges; i++) { es.emplace_back(F); buildByVar(D, F, k, tv[i], es.back()); }
            Order sw = identityOrder(2); std::swap(sw[1], sw[2]);
            try {
                for (int round = 0; round < 2 && what.empty(); round++) {
                    Order tgt = round == 0 ? sw : identityOrder(2);
                    F->reorderVariables(tgt.data());
                    for (int i = 0; i < nedges; i++)
                        if (tableByVar(D, es[i], orderOf(F)) != tv[i]) what = "changed-after-" + std::to_string(round + 1) + "-swaps edge " + std::to_string(i);
                }
            } catch (error& er) { what = std::string("threw-") + errName(er); }
        }
        forest::destroy(F);
        if (!what.empty() && cost < best) {
            best = cost;
            emit("note mini2 sizes %d %d cost %zu : %s", a, b, cost, what.c_str());
            for (auto& v : tv) emit("note mini2   table %s", tableStr(v).c_str());
        }
    }
    emit("note mini2 done");
    D.destroy();
    return 0;
}

// ------------------------------------------------------------------ the family
int run(const Args& A) {
    libInit();
    if (A.getl("mini", 0) == 2) { int rc = miniSearch2(A); libCleanup(); return rc; }
    if (A.getl("mini", 0)) { int rc = miniSearch(A); libCleanup(); return rc; }
    const long PROBES = 16;
    std::string f3 = A.get("f3", "auto");
    // steering away from the known triggers LSW / IDSZ is decided by silent pre-probes (like F3): once the library
    // is repaired the main cases include LEVEL-swap forests / relation forests over mixed sizes automatically
    std::string optLevel = A.get("level-swap", "auto"), optMixed = A.get("rel-mixed", "auto");
    bool wantLevel = optLevel == "1" ||
        (optLevel == "auto" && runInChild([]() { return tinyReorder(H_SINK, true, true); }, 20000) == 0);
    bool relMixed = optMixed == "1" || (optMixed == "auto" && runInChild([]() { return idszScenario(); }, 20000) == 0);
    emit("note steering level-swap=%d rel-mixed=%d", int(wantLevel), int(relMixed));
    bool withEVP = A.getl("evp", 1) != 0;

    // ---- F3 probes (always executed, printed when selected): which heuristics survive a reorder?
    bool usable[8];
    for (int h = 0; h < 8; h++) {
        int rc = runInChild([h]() { return tinyReorder(h, false, false); }, 20000);
        usable[h] = (rc == 0);
        if (A.selected(h)) {
            beginCase(h);
            if (rc != 0) emit("note known-trigger F3 %s", HEUR[h].tag);
            emit("probe F3 %s %s rc %d", HEUR[h].tag, UNDER_ASAN ? "asan" : "plain", rc);
            STATS.hit(rc == 0 ? "probe.f3.clean" : "probe.f3.failed");
            endCase();
        }
    }
    bool allowed[8];
    for (int h = 0; h < 8; h++) {
        bool six = (h != H_SINK && h != H_BRING);
        if (f3 == "all") allowed[h] = true;
        else if (f3 == "avoid") allowed[h] = !six;
        else allowed[h] = UNDER_ASAN ? usable[h] : true;      // auto
    }

    // ---- LEVEL-swap probes
    if (A.selected(8)) {
        // a relation forest created with setLevelSwap(): documented as "swap through 4 level swaps, not for
        // identity-reduced"; swapAdjacentLevels is a stub that throws NOT_IMPLEMENTED.  Accepted outcomes:
        // the documented error with the forest intact, or a completed reordering.
        Rng r(Rng::mix(A.seed, 8));
        Dom D; D.sizes = {2, 3, 2}; D.create();
        beginCase(8);
        emits(D.str());
        Obs X; X.name = "F"; X.k.rel = true; X.pol = Pol();
        X.F = makeForestR(D.d, X.k, X.pol, H_SINK, true);
        emitForest("F", X.F, X.k, X.pol);
        emit("note known-trigger LSW sink_down");
        populate(D, X, r, 2, "E");
        Order target = identityOrder(3);
        std::swap(target[1], target[3]);
        doReorder(X, H_SINK, true, target);
        observe(D, X, true, true);
        STATS.hit("probe.levelswap");
        endCase();
        for (Held* h : X.held) delete h;
        X.held.clear();
        forest::destroy(X.F);
        D.destroy();
    }
    if (A.selected(9)) {
        beginCase(9);
        const int h = 4;   // lowest_cost: re-queues the neighbours of a swapped level
        if (UNDER_ASAN && !usable[h]) {
            emit("note level-swap-hang-probe skipped: %s does not survive its F3 probe in this flavour", HEUR[h].tag);
        } else {
            int rc = runInChild([h]() { return tinyReorder(h, true, true); }, 2000);
            emit("note known-trigger LSWHANG %s", HEUR[h].tag);
            emit("probe LSWHANG %s %s rc %d", HEUR[h].tag, UNDER_ASAN ? "asan" : "plain", rc);
            STATS.hit("probe.levelswap.hang");
        }
        endCase();
    }

    if (A.selected(10)) {
        // IDSZ probe: identity-reduced boolean relation over variables of sizes (3,2); two held edges (the
        // all-true relation and all-true minus one pair); one variable swap.
        Dom D; D.sizes = {3, 2}; D.create();
        beginCase(10);
        emits(D.str());
        Obs X; X.name = "F"; X.k.rel = true; X.k.rr = reduction_rule::IDENTITY_REDUCED; X.pol = Pol();
        X.F = makeForestR(D.d, X.k, X.pol, H_SINK, false);
        emitForest("F", X.F, X.k, X.pol);
        emit("note known-trigger IDSZ sink_down");
        for (int i = 0; i < 2; i++) {
            Held* h = new Held{std::string("E") + std::to_string(i), dd_edge(X.F), std::vector<Val>(D.card(true), Val::boolean(true))};
            if (i == 0) h->tv[19] = Val::boolean(false);
            buildByVar(D, X.F, X.k, h->tv, h->e);
            emit("input %s %s", h->name.c_str(), tableStr(h->tv).c_str());
            emit("table %s F %s", h->name.c_str(), tableStr(tableByVar(D, h->e, orderOf(X.F))).c_str());
            X.held.push_back(h);
        }
        observe(D, X, true, true);
        Order target = identityOrder(2);
        std::swap(target[1], target[2]);
        doReorder(X, H_SINK, false, target);
        observe(D, X, true, true);
        STATS.hit("probe.idsz");
        endCase();
        for (Held* h : X.held) delete h;
        X.held.clear();
        forest::destroy(X.F);
        D.destroy();
    }

    // ---- main cases
    std::vector<Kind> kinds;
    {
        for (range_type rt : {range_type::BOOLEAN, range_type::INTEGER})
            for (reduction_rule rr : {reduction_rule::FULLY_REDUCED, reduction_rule::QUASI_REDUCED}) {
                Kind k; k.rel = false; k.rt = rt; k.rr = rr; kinds.push_back(k);
            }
        for (range_type rt : {range_type::BOOLEAN, range_type::INTEGER})
            for (reduction_rule rr : {reduction_rule::FULLY_REDUCED, reduction_rule::QUASI_REDUCED, reduction_rule::IDENTITY_REDUCED}) {
                Kind k; k.rel = true; k.rt = rt; k.rr = rr; kinds.push_back(k);
            }
        { Kind k; k.rel = false; k.rt = range_type::INTEGER; k.el = edge_labeling::EVPLUS; k.rr = reduction_rule::FULLY_REDUCED; kinds.push_back(k); }
        // unsupported kinds: must refuse and stay intact
        { Kind k; k.rel = true; k.rt = range_type::INTEGER; k.el = edge_labeling::EVPLUS; k.rr = reduction_rule::FULLY_REDUCED; kinds.push_back(k); }
    }
    // --only relations: only the MT relation kinds (the variable swap of mtmxd forests: duplicate resolution,
    // mixed sizes, identity patterns), for a run with many more cases than the mixed default
    if (A.get("only") == "relations") {
        std::vector<Kind> rk;
        for (auto& k : kinds) if (k.rel && !isEVP(k)) rk.push_back(k);
        for (auto& k : kinds) if (k.rel && !isEVP(k) && k.rr == reduction_rule::IDENTITY_REDUCED) rk.push_back(k);   // twice
        kinds = rk;
    }
    const long nk = long(kinds.size());
    // --screen N: see common.h (SCREENING); the probe cases before this point are always written out
    if (A.getl("screen", 0) > 0) {
        SCREEN().on = true; SCREEN().sampleEvery = A.getl("screen", 0);
        screenInstallCrashFlush();
    }
    long rounds = A.thorough() ? 10 : 5;
    long ncases = A.cases > 0 ? A.cases : PROBES + 8 * nk * rounds;
    for (long c = PROBES; c < ncases; c++) {
        if (!A.selected(c)) continue;
        Rng r(Rng::mix(A.seed, uint64_t(c)));
        long m = c - PROBES;
        int heurWanted = int(m % 8);
        Kind k = kinds[size_t((m / 8) % nk)];
        if (isEVP(k) && !withEVP) {
            // --evp 0: leaves the EV+ kinds out (useful with a UBSan build that still has the alignment check on:
            // long edge values live in int-aligned slots, edge_value.h getLong/setLong - not a C13 matter)
            STATS.hit("evp.skipped");
            continue;
        }
        bool unsupported = k.rel && isEVP(k);
        bool lsDraw = r.chance(1, 4);
        bool levelSwap = wantLevel && k.rel && !isEVP(k) && lsDraw;
        int heur = heurWanted;
        unsigned maxK = k.rel ? (A.thorough() ? 4 : 3) : 7;
        unsigned K;
        {
            // small K often (exhaustive over permutations); sets also get 5..7 variables regularly: schedules of
            // the count-based heuristics only become interesting (several pending inversions, tentative swaps
            // on both sides of a swapped level) from 5 variables on
            unsigned w = r.below(10);
            if (k.rel) K = w < 3 ? 2 : w < 7 ? 3 : w < 9 ? 4 : 5;
            else K = w < 2 ? 2 : w < 4 ? 3 : w < 5 ? 4 : w < 7 ? 5 : w < 9 ? 6 : 7;
            if (K > maxK) K = maxK;
        }
        Dom D;
        for (;;) {
            D.sizes.clear();
            for (unsigned i = 0; i < K; i++) D.sizes.push_back(r.range(2, K >= 4 ? 3 : 4));
            if (D.card(k.rel) <= (k.rel ? (A.thorough() ? 1300u : 450u) : (A.thorough() ? 400u : 200u))) break;
        }
        if (k.rel && !isEVP(k) && !relMixed) {
            // known trigger IDSZ (see case 10): variable swap in a RELATION forest between two variables of
            // DIFFERENT sizes (duplicate-resolution path; frequent with the identity rule, rare with the
            // others); steer away: all variables get the size of variable 1
            for (unsigned i = 1; i < K; i++) D.sizes[i] = D.sizes[0];
            STATS.hit("idsz.avoided");
        }
        D.create();
        beginCase(c);
        CaseBudget budget(A.thorough() ? 240000 : 120000);
        emits(D.str());
        if (!allowed[heur]) {
            emit("note f3-avoided %s", HEUR[heur].tag);
            STATS.hit("f3.avoided");
            heur = (heur % 2) ? H_BRING : H_SINK;
        }
        Obs X; X.name = "F"; X.k = k; X.pol = r.chance(1, 2) ? Pol::random(r) : Pol();
        X.F = makeForestR(D.d, k, X.pol, heur, levelSwap);
        emitForest("F", X.F, k, X.pol);
        emit("note heuristic %s swap %s K %u", HEUR[heur].tag, levelSwap ? "level" : "var", K);
        STATS.hit("kind." + k.str());
        STATS.hit("K." + std::to_string(K));
        if (levelSwap) STATS.hit("swap.level"); else STATS.hit("swap.var");

        // bystander forest over the same domain
        Obs G; G.name = "G";
        {
            std::vector<Kind> gk(kinds.begin(), kinds.begin() + 10);    // MT kinds only
            G.k = r.pick(gk);
            if (G.k.rel && D.card(true) > (A.thorough() ? 1300u : 450u)) G.k.rel = false, G.k.rr = reduction_rule::FULLY_REDUCED;
            G.pol = Pol::random(r);
            G.heur = r.chance(1, 2) ? H_SINK : H_BRING;
            G.F = makeForestR(D.d, G.k, G.pol, G.heur, false);
            emitForest("G", G.F, G.k, G.pol);
        }
        populate(D, X, r, r.range(1, 6), "E");
        populate(D, G, r, r.range(1, 3), "H");
        // sometimes the bystander is itself away from the default order (order objects are shared through the
        // domain: a reordering of F must work on its own copy)
        int gmode = int(r.below(4));         // 0,1: default order ; 2: random order ; 3: F's first target
        if (G.k.rel && !relMixed && std::set<int>(D.sizes.begin(), D.sizes.end()).size() > 1) {
            gmode = 0;                        // known trigger IDSZ: do not swap in a relation bystander over mixed sizes
            STATS.hit("idsz.avoided.bystander");
        }
        std::vector<Order> targets;
        {
            unsigned long nperm = factorial(K);
            // exhaustive over the K! targets: K <= 3 always; thorough: K = 4 always, K = 5 in one case out of 3
            bool all = K <= 3 || (A.thorough() && ((K == 4 && !k.rel) || r.chance(1, 3)));
            if (unsupported) all = false;
            if (all) {
                std::vector<unsigned long> idx;
                for (unsigned long i = 0; i < nperm; i++) idx.push_back(i);      // includes the current order (no swap needed)
                for (size_t i = idx.size(); i > 1; i--) std::swap(idx[i - 1], idx[r.below(unsigned(i))]);
                for (unsigned long i : idx) targets.push_back(nthPermutation(K, i));
                STATS.hit("perms.exhaustive.K" + std::to_string(K));
            } else {
                int n = unsupported ? 2 : (A.thorough() || K >= 5) ? 8 : 4;
                for (int i = 0; i < n; i++) targets.push_back(nthPermutation(K, r.below(unsigned(nperm))));
                Order rev = identityOrder(K);
                std::reverse(rev.begin() + 1, rev.end());
                if (r.chance(1, 2)) targets[0] = rev;
                STATS.hit("perms.sampled");
            }
            targets.push_back(identityOrder(K));
        }
        if (gmode >= 2) {
            Order gt = gmode == 3 ? targets[0] : nthPermutation(K, r.below(unsigned(factorial(K))));
            observe(D, G, true, false);
            doReorder(G, G.heur, false, gt);
            STATS.hit("bystander.reordered");
        }
        observe(D, X, true, true);
        observe(D, G, true, true);
        auto groots = [&]() { std::vector<node_handle> v; for (Held* h : G.held) v.push_back(h->e.getNode()); return v; };
        std::string gstore = storeText(G.F, G.k, groots());
        Order gorder = orderOf(G.F);

        bool warm = r.chance(3, 4);
        if (!warm) { X.F->removeAllComputeTableEntries(); STATS.hit("ct.cold"); } else STATS.hit("ct.warm");

        size_t step = 0;
        for (const Order& target : targets) {
            ++step;
            bool last = step == targets.size();
            // the policy object is reachable (non-const getPolicies): switch the heuristic now and then
            if (r.chance(1, 5)) {
                int h2 = int(r.below(8));
                if (allowed[h2]) {
                    heur = h2;
                    HEUR[heur].set(X.F->getPolicies());
                    emit("note heuristic-switched %s", HEUR[heur].tag);
                    STATS.hit("policy.switched");
                }
            }
            Order before = orderOf(X.F);
            STATS.hit("inversions." + std::to_string(std::min(10L, inversionsBetween(before, target))));
            bool ok = doReorder(X, heur, levelSwap, target);
            bool full = last || step == 1 || (K <= 3 && !A.thorough()) || r.chance(1, targets.size() > 30 ? 12 : targets.size() > 8 ? 5 : 3);
            observe(D, X, true, full);
            // the bystander: order, tables, node store
            {
                emit("order G %s", orderStr(orderOf(G.F)).c_str());
                emit("expect bystander-order %s %s", orderStrC(gorder).c_str(), orderStrC(orderOf(G.F)).c_str());
                std::string now = storeText(G.F, G.k, groots());
                emit("expect bystander-store %lu/%zu %lu/%zu", hashText(gstore), gstore.size(), hashText(now), now.size());
                if (now != gstore && getenv("MDH_DEBUG")) { emit("note gstore-before %s", gstore.c_str()); emit("note gstore-after %s", now.c_str()); }
                if (last || (full && r.chance(1, 4))) observe(D, G, true, last);
            }
            if (!ok && !unsupported && !levelSwap) { STATS.hit("reorder.unexpected-error"); markSuspect(); }
            if (orderOf(X.F) != target && ok) markSuspect();
            // work in the reordered forest: rebuild a held function from scratch (must be the same node),
            // operate on held edges (oracle: the by-variable tables)
            if (full && !X.held.empty()) {
                Held* h = X.held[r.below(unsigned(X.held.size()))];
                dd_edge again(X.F);
                buildByVar(D, X.F, X.k, h->tv, again);
                emit("table R%zu F %s", step, tableStr(tableByVar(D, again, orderOf(X.F))).c_str());
                emitEq(h->name, "R" + std::to_string(step), h->e, again);
                if (!(h->e == again)) markSuspect();
                STATS.hit("rebuild.eq");
                Held* a = X.held[r.below(unsigned(X.held.size()))];
                Held* b = X.held[r.below(unsigned(X.held.size()))];
                const char* op = pickOp(r, X.k);
                dd_edge res(X.F);
                try {
                    doApply(op, a->e, b->e, res);
                    emit("op X%zu %s %s %s", step, op, a->name.c_str(), b->name.c_str());
                    emit("table X%zu F %s", step, tableStr(tableByVar(D, res, orderOf(X.F))).c_str());
                    STATS.hit("followup.op");
                    // the same operation result computed before any reordering, if it is a held edge, is ==
                    if (r.chance(1, 2)) {
                        dd_edge res2(X.F);
                        doApply(op, a->e, b->e, res2);      // warm table
                        emit("table Y%zu F %s", step, tableStr(tableByVar(D, res2, orderOf(X.F))).c_str());
                        emitEq("X" + std::to_string(step), "Y" + std::to_string(step), res, res2);
                    }
                } catch (error& e) {
                    emit("note followup-op-failed %s %s", op, errName(e));
                    STATS.hit(std::string("followup.err.") + errName(e));
                }
                // F and G now differ in order (unless equal by construction): operating across them must not
                // silently produce a wrong table
                if (!k.rel && !G.k.rel && isBool(k) && isBool(G.k) && !G.held.empty() && r.chance(1, 3)) {
                    dd_edge cross(X.F);
                    bool sameOrder = orderOf(X.F) == orderOf(G.F);
                    try {
                        apply(UNION, a->e, G.held[0]->e, cross);
                        if (sameOrder) {
                            emit("op C%zu UNION %s %s", step, a->name.c_str(), G.held[0]->name.c_str());
                            emit("table C%zu F %s", step, tableStr(tableByVar(D, cross, orderOf(X.F))).c_str());
                        } else {
                            emit("expect cross-order-op refused accepted");
                        }
                        STATS.hit(sameOrder ? "cross.same-order" : "cross.accepted");
                    } catch (error& e) {
                        emit("expect cross-order-op %s refused", sameOrder ? "accepted" : "refused");
                        emit("note cross-order-op %s", errName(e));
                        STATS.hit(std::string("cross.err.") + errName(e));
                    }
                }
            }
            if (last) {
                // back at the default order: every held edge equals the edge built from its table right now
                size_t i = 0;
                for (Held* h : X.held) {
                    dd_edge again(X.F);
                    buildByVar(D, X.F, X.k, h->tv, again);
                    std::string nm = "Z" + std::to_string(i++);
                    emit("table %s F %s", nm.c_str(), tableStr(tableByVar(D, again, orderOf(X.F))).c_str());
                    emitEq(h->name, nm, h->e, again);
                    if (!(h->e == again)) markSuspect();
                }
                for (size_t a = 0; a < X.held.size(); a++)
                    for (size_t b = a + 1; b < X.held.size(); b++)
                        emitEq(X.held[a]->name, X.held[b]->name, X.held[a]->e, X.held[b]->e);
            }
        }
        // release everything: nothing may leak
        for (Held* h : X.held) delete h;
        X.held.clear();
        for (Held* h : G.held) delete h;
        G.held.clear();
        X.F->removeAllComputeTableEntries();
        G.F->removeAllComputeTableEntries();
        emit("expect leak-F 0 %ld", X.F->getCurrentNumNodes());
        emit("expect leak-G 0 %ld", G.F->getCurrentNumNodes());
        if (X.F->getCurrentNumNodes() != 0 || G.F->getCurrentNumNodes() != 0) markSuspect();
        endCase();
        forest::destroy(X.F);
        forest::destroy(G.F);
        D.destroy();
    }
    if (SCREEN().on) {
        emit("note screening kept %ld dropped %ld suspects %ld", SCREEN().kept, SCREEN().dropped, SCREEN().suspects);
        STATS.hit("screen.kept", SCREEN().kept); STATS.hit("screen.dropped", SCREEN().dropped); STATS.hit("screen.suspects", SCREEN().suspects);
    }
    libCleanup();
    return 0;
}
FamilyReg reg("reorder", run, "C13 variable reordering: all heuristics, swap methods, held edges, bystander forests");
}  // namespace
