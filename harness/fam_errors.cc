// Family `errors` (C16): misuse is rejected with the documented error and leaves all functions intact.
//
// Part (a)  cases 0 .. NOPS-1: the FULL finite decision table of constructor checks and factory
//           refusals.  One case per catalogue operation; every triple (pair / single for unary
//           operations) of forests from a pool of 13 kinds, all in one domain (sameDomain=1) and
//           with at least one of them in a second domain.  Record
//               pre <OP> <kindA> <kindB> <kindC> <domains> -> ok applied | err <CODE>
//           <domains>: 1 = one domain; a = only the first operand lives elsewhere (second operand and
//           result share a domain); 0 = any other split.  Every row is decided through the factory's
//           `build()` and, when accepted, COMPUTED (`apply`).  No result value is compared here.
// Case 99   reproducers of known findings that are still in the library (one forked child each; see
//           knownFindingProbes).
// Part (b)  cases 100 ..: run-time errors raised deep inside an operation and scripted misuse of
//           the non-operation API; all held edges are re-read afterwards, the forests are audited
//           and a follow-up operation in the same forests is compared with the oracle.
#include "common.h"
#include <unistd.h>
#include <sys/wait.h>
#include <csignal>
using namespace MEDDLY;
using namespace mdh;

namespace {

// ------------------------------------------------------------------ catalogue
enum Arity { UN_DD, UN_LONG, UN_DOUBLE, BIN };
struct OpDesc {
    const char* name;
    Arity ar;
    unary_factory& (*uf)();
    binary_factory& (*bf)();
};
binary_factory& satF() { return REACHABLE_SATUR(true, 1); }
binary_factory& satB() { return REACHABLE_SATUR(false, 1); }
binary_factory& tfsF() { return REACHABLE_TRAD_FS(true); }
binary_factory& tfsB() { return REACHABLE_TRAD_FS(false); }
binary_factory& tnfF() { return REACHABLE_TRAD_NOFS(true); }
binary_factory& tnfB() { return REACHABLE_TRAD_NOFS(false); }

const OpDesc OPS[] = {
    {"UNION", BIN, nullptr, UNION},
    {"INTERSECTION", BIN, nullptr, INTERSECTION},
    {"DIFFERENCE", BIN, nullptr, DIFFERENCE},
    {"CROSS", BIN, nullptr, CROSS},
    {"PLUS", BIN, nullptr, PLUS},
    {"MINUS", BIN, nullptr, MINUS},
    {"MULTIPLY", BIN, nullptr, MULTIPLY},
    {"DIVIDE", BIN, nullptr, DIVIDE},
    {"MODULO", BIN, nullptr, MODULO},
    {"MAXIMUM", BIN, nullptr, MAXIMUM},
    {"MINIMUM", BIN, nullptr, MINIMUM},
    {"DIST_MIN", BIN, nullptr, DIST_MIN},
    {"EQUAL", BIN, nullptr, EQUAL},
    {"NOT_EQUAL", BIN, nullptr, NOT_EQUAL},
    {"LESS_THAN", BIN, nullptr, LESS_THAN},
    {"LESS_THAN_EQUAL", BIN, nullptr, LESS_THAN_EQUAL},
    {"GREATER_THAN", BIN, nullptr, GREATER_THAN},
    {"GREATER_THAN_EQUAL", BIN, nullptr, GREATER_THAN_EQUAL},
    {"PRE_IMAGE", BIN, nullptr, PRE_IMAGE},
    {"POST_IMAGE", BIN, nullptr, POST_IMAGE},
    {"VM_MULTIPLY", BIN, nullptr, VM_MULTIPLY},
    {"MV_MULTIPLY", BIN, nullptr, MV_MULTIPLY},
    {"REACHABLE_SATUR_FWD", BIN, nullptr, satF},
    {"REACHABLE_SATUR_BWD", BIN, nullptr, satB},
    {"REACHABLE_TRAD_FS_FWD", BIN, nullptr, tfsF},
    {"REACHABLE_TRAD_FS_BWD", BIN, nullptr, tfsB},
    {"REACHABLE_TRAD_NOFS_FWD", BIN, nullptr, tnfF},
    {"REACHABLE_TRAD_NOFS_BWD", BIN, nullptr, tnfB},
    {"COPY", UN_DD, COPY, nullptr},
    {"COMPLEMENT", UN_DD, COMPLEMENT, nullptr},
    {"CONVERT_TO_INDEX_SET", UN_DD, CONVERT_TO_INDEX_SET, nullptr},
    {"DIST_INC", UN_DD, DIST_INC, nullptr},
    {"CYCLE", UN_DD, CYCLE, nullptr},
    {"CARDINALITY_INT", UN_LONG, CARDINALITY, nullptr},
    {"CARDINALITY_REAL", UN_DOUBLE, CARDINALITY, nullptr},
    {"MAX_RANGE_INT", UN_LONG, MAX_RANGE, nullptr},
    {"MAX_RANGE_REAL", UN_DOUBLE, MAX_RANGE, nullptr},
    {"MIN_RANGE_INT", UN_LONG, MIN_RANGE, nullptr},
    {"MIN_RANGE_REAL", UN_DOUBLE, MIN_RANGE, nullptr},
};
const int NOPS = int(sizeof(OPS) / sizeof(OPS[0]));

// ------------------------------------------------------------------ pool
std::string kindTok(const Kind& k) {
    std::string s = k.str();
    for (auto& ch : s) if (ch == ' ') ch = '.';
    return s;
}

Kind mk(bool rel, range_type rt, edge_labeling el, reduction_rule rr) {
    Kind k; k.rel = rel; k.rt = rt; k.el = el; k.rr = rr; return k;
}

std::vector<Kind> poolKinds() {
    const auto B = range_type::BOOLEAN; const auto I = range_type::INTEGER; const auto R = range_type::REAL;
    const auto MT = edge_labeling::MULTI_TERMINAL; const auto EP = edge_labeling::EVPLUS;
    const auto IX = edge_labeling::INDEX_SET; const auto ET = edge_labeling::EVTIMES;
    const auto FU = reduction_rule::FULLY_REDUCED; const auto QU = reduction_rule::QUASI_REDUCED;
    const auto ID = reduction_rule::IDENTITY_REDUCED;
    return {
        mk(false, B, MT, FU), mk(false, B, MT, QU), mk(false, I, MT, FU), mk(false, I, MT, QU),
        mk(false, R, MT, FU), mk(false, I, EP, FU), mk(false, I, IX, FU),
        mk(true, B, MT, ID), mk(true, B, MT, FU), mk(true, I, MT, ID), mk(true, R, MT, ID),
        mk(true, I, EP, ID), mk(true, R, ET, ID),
    };
}

struct PF {
    Kind k;
    forest* F = nullptr;
    std::string tok;
    dd_edge A, B, C;   // A: general operand; B: "safe divisor" (finite, non-zero everywhere);
                       // C: a second general operand, for the set operations (no value-dependent error there;
                       //    two non-constant operands reach the terminal cases above level 0, former finding F5)
};

// a table that is finite and non-zero everywhere (so that no value-dependent error can occur)
std::vector<Val> safeTable(Rng& r, const Dom& D, const Kind& k) {
    size_t n = D.card(k.rel);
    std::vector<Val> t(n);
    for (size_t i = 0; i < n; i++) {
        switch (k.rt) {
            case range_type::BOOLEAN: t[i] = Val::boolean(true); break;
            case range_type::INTEGER: t[i] = Val::integer(r.range(1, 3)); break;
            default: t[i] = Val::real(double(r.range(1, 2))); break;
        }
    }
    return t;
}
std::vector<Val> generalTable(Rng& r, const Dom& D, const Kind& k) {
    size_t n = D.card(k.rel);
    std::vector<Val> t(n, k.zero());
    bool evp = k.el == edge_labeling::EVPLUS;
    for (size_t i = 0; i < n; i++) {
        if (!r.chance(3, 5)) continue;
        switch (k.rt) {
            case range_type::BOOLEAN: t[i] = Val::boolean(true); break;
            case range_type::INTEGER: t[i] = Val::integer(r.range(evp ? 0 : 1, 4)); break;
            default: t[i] = Val::real(double(r.range(1, 3))); break;
        }
    }
    return t;
}

void buildPool(Rng& r, Dom& D, std::vector<PF>& pool) {
    std::vector<Kind> ks = poolKinds();
    pool.resize(ks.size());
    for (size_t i = 0; i < ks.size(); i++) {
        PF& p = pool[i];
        p.k = ks[i];
        p.F = makeForest(D.d, p.k, Pol());
        p.tok = kindTok(p.k);
        p.A.attach(p.F);
        p.B.attach(p.F);
        p.C.attach(p.F);
        if (p.k.el == edge_labeling::INDEX_SET) {
            // a genuine index set: converted from a Boolean set held in pool[0]
            dd_edge s(pool[0].F), s2(pool[0].F), s3(pool[0].F);
            Kind kb = pool[0].k;
            buildFromTable(D, pool[0].F, kb, generalTable(r, D, kb), s);
            buildFromTable(D, pool[0].F, kb, safeTable(r, D, kb), s2);
            buildFromTable(D, pool[0].F, kb, generalTable(r, D, kb), s3);
            apply(CONVERT_TO_INDEX_SET, s, p.A);
            apply(CONVERT_TO_INDEX_SET, s2, p.B);
            apply(CONVERT_TO_INDEX_SET, s3, p.C);
        } else {
            buildFromTable(D, p.F, p.k, generalTable(r, D, p.k), p.A);
            buildFromTable(D, p.F, p.k, safeTable(r, D, p.k), p.B);
            buildFromTable(D, p.F, p.k, generalTable(r, D, p.k), p.C);
        }
    }
}

// ------------------------------------------------------------------ row execution
bool ISOLATE = false;

// run `fn`, return "ok" / "err CODE"; with isolation: in a forked child, "crash <signal>" if it died
std::string attempt(const std::function<void()>& fn, bool isolate) {
    if (!isolate) {
        try { fn(); return "ok"; }
        catch (error& e) { return std::string("err ") + errName(e); }
    }
    fflush(stdout);
    int fd[2];
    if (pipe(fd) != 0) return "crash pipe";
    pid_t pid = fork();
    if (pid == 0) {
        close(fd[0]);
        alarm(20);
        std::string out;
        try { fn(); out = "ok"; }
        catch (error& e) { out = std::string("err ") + errName(e); }
        ssize_t w = write(fd[1], out.c_str(), out.size());
        (void) w;
        _exit(0);
    }
    close(fd[1]);
    char buf[128];
    std::string got;
    ssize_t n;
    while ((n = read(fd[0], buf, sizeof buf)) > 0) got.append(buf, size_t(n));
    close(fd[0]);
    int st = 0;
    waitpid(pid, &st, 0);
    if (WIFSIGNALED(st)) return std::string("crash signal") + std::to_string(WTERMSIG(st));
    if (WIFEXITED(st) && WEXITSTATUS(st) != 0) return std::string("crash exit") + std::to_string(WEXITSTATUS(st));
    if (got.empty()) return "crash silent";
    return got;
}

// ---- no steering -----------------------------------------------------------------------------------
// Earlier revisions withheld the `apply` (or the whole row) on six classes of rows on which the library
// crashed instead of raising an error (findings F1..F6 of docs/NOTES_errors.md).  All six are repaired in
// the library; every row is now decided AND, when accepted, computed in this process.  A crash of the
// library therefore ends the run (the runner reports it); `--isolate 1` localises the fatal row.
// doms: "1" all forests in one domain; "a" only the first operand lives in another domain (second operand and
// result share one); "0" any other split
struct Row { const OpDesc* od; PF* a; PF* b; PF* c; const char* doms; };

std::string rowHead(const Row& w) {
    return std::string("pre ") + w.od->name + " " + w.a->tok + " " + (w.b ? w.b->tok : std::string("-")) + " " +
           (w.c ? w.c->tok : std::string("-")) + " " + w.doms + " -> ";
}

// the constructors' decision, without computing anything
void buildRow(const Row& w) {
    const OpDesc& od = *w.od;
    bool null = false;
    switch (od.ar) {
        case BIN: null = !od.bf().build(w.a->F, w.b->F, w.c->F); break;
        case UN_DD: null = !od.uf().build(w.a->F, w.c->F); break;
        case UN_LONG: null = !od.uf().build(w.a->F, opnd_type::INTEGER); break;
        case UN_DOUBLE: null = !od.uf().build(w.a->F, opnd_type::REAL); break;
    }
    if (null) throw error(error::NOT_IMPLEMENTED, __FILE__, __LINE__);   // what `apply` does with a null operation
}

void execRow(const Row& w) {
    const OpDesc& od = *w.od;
    switch (od.ar) {
        case BIN: {
            dd_edge res(w.c->F);
            std::string op = od.name;
            bool setop = op == "UNION" || op == "INTERSECTION" || op == "DIFFERENCE";
            apply(od.bf(), w.a->A, setop ? w.b->C : w.b->B, res);
            break;
        }
        case UN_DD: {
            dd_edge res(w.c->F);
            apply(od.uf(), w.a->A, res);
            break;
        }
        case UN_LONG: { long v = 0; od.uf().apply(w.a->A, v); break; }
        case UN_DOUBLE: { double v = 0; od.uf().apply(w.a->A, v); break; }
    }
}

void runRow(const Row& w) {
    std::string line = rowHead(w);
    // the constructors' decision first (nothing is computed) ...
    std::string out = attempt([&] { buildRow(w); }, false);
    if (out != "ok") {
        emits(line + out);
        STATS.hit("pre." + out.substr(4));
        return;
    }
    // ... then every accepted row is computed
    out = attempt([&] { execRow(w); }, false);
    emits(line + out + (out == "ok" ? " applied" : ""));
    STATS.hit(out == "ok" ? "pre.ok.applied" : "pre." + out.substr(4));
}

// development aid (--isolate 1): run the rows in forked children; a child that dies is replaced by a new
// one that continues after the fatal row, which is reported as `-> crash signalN`
void runRowsIsolated(const std::vector<Row>& rows) {
    size_t s = 0;
    while (s < rows.size()) {
        fflush(stdout);
        int fd[2];
        if (pipe(fd) != 0) return;
        pid_t pid = fork();
        if (pid == 0) {
            close(fd[0]);
            for (size_t i = s; i < rows.size(); i++) {
                uint32_t idx = uint32_t(i);
                ssize_t w = write(fd[1], &idx, sizeof idx);
                (void) w;
                alarm(30);
                runRow(rows[i]);
                fflush(stdout);
            }
            _exit(0);
        }
        close(fd[1]);
        uint32_t idx = 0, last = uint32_t(s);
        while (read(fd[0], &idx, sizeof idx) == ssize_t(sizeof idx)) last = idx;
        close(fd[0]);
        int st = 0;
        waitpid(pid, &st, 0);
        if (WIFEXITED(st) && WEXITSTATUS(st) == 0) return;
        std::string why = WIFSIGNALED(st) ? "signal" + std::to_string(WTERMSIG(st)) : "exit" + std::to_string(WEXITSTATUS(st));
        emits(rowHead(rows[last]) + "crash " + why + " row=" + std::to_string(last));
        STATS.hit("pre.crash");
        s = size_t(last) + 1;
    }
}

void tableCase(const Args& A, long c) {
    const OpDesc& od = OPS[c];
    Rng r(Rng::mix(A.seed, uint64_t(c)));
    Dom D1, D2;
    D1.sizes = {2, 3};
    D2.sizes = {3, 2};
    D1.create();
    D2.create();
    beginCase(c);
    emits(D1.str());
    emit("note table %s second-domain %s", od.name, D2.str().c_str());
    std::vector<PF> P1, P2;
    buildPool(r, D1, P1);
    buildPool(r, D2, P2);
    size_t n = P1.size();
    std::vector<Row> rows;
    // which operands come from the second domain when sameDomain = 0: every non-empty proper pattern in the
    // thorough tier, one random pattern per row otherwise
    switch (od.ar) {
        case BIN:
            for (size_t i = 0; i < n; i++)
                for (size_t j = 0; j < n; j++)
                    for (size_t k = 0; k < n; k++) {
                        rows.push_back({&od, &P1[i], &P1[j], &P1[k], "1"});
                        unsigned lo = 1, hi = 6;
                        if (!A.thorough()) lo = hi = 1 + r.below(6);
                        for (unsigned pat = lo; pat <= hi; pat++) {
                            // pat in 1..6 as bits (a,b,c) from the second domain, never all three
                            PF& a = (pat & 1) ? P2[i] : P1[i];
                            PF& b = (pat & 2) ? P2[j] : P1[j];
                            PF& cc = (pat & 4) ? P2[k] : P1[k];
                            // pat 1 and 6: the second operand and the result share a domain
                            rows.push_back({&od, &a, &b, &cc, (pat == 1 || pat == 6) ? "a" : "0"});
                        }
                    }
            break;
        case UN_DD:
            for (size_t i = 0; i < n; i++)
                for (size_t k = 0; k < n; k++) {
                    rows.push_back({&od, &P1[i], nullptr, &P1[k], "1"});
                    rows.push_back({&od, &P2[i], nullptr, &P1[k], "0"});
                    rows.push_back({&od, &P1[i], nullptr, &P2[k], "0"});
                }
            break;
        default:
            for (size_t i = 0; i < n; i++) rows.push_back({&od, &P1[i], nullptr, nullptr, "1"});
            break;
    }
    long only = A.getl("row", -1);   // development aid: a single row of the case
    if (only >= 0) { if (size_t(only) < rows.size()) { emit("note row %ld", only); fflush(stdout); runRow(rows[size_t(only)]); } }
    else if (ISOLATE) runRowsIsolated(rows);
    else for (auto& w : rows) runRow(w);
    endCase();
    // release edges before the forests
    for (auto* P : {&P1, &P2}) {
        for (auto& p : *P) { p.A.detach(); p.B.detach(); p.C.detach(); }
        for (auto& p : *P) forest::destroy(p.F);
    }
    D1.destroy();
    D2.destroy();
}

// =====================================================================================================
// Part (b): run-time errors and scripted misuse
// =====================================================================================================

// the harness' own recount of incoming references: nodes whose stored in-count EXCEEDS the number of
// parent slots + root edges pointing at them (references left behind by an aborted operation)
void leakCount(forest* F, long& nodes, long& refs) {
    std::map<node_handle, long> cnt;
    node_handle last = F->getLastNode();
    for (node_handle h = 1; h <= last; h++) {
        if (!F->isActiveNode(h) || F->isDeletedNode(h)) continue;
        unpacked_node* U = unpacked_node::newFromNode(F, h, FULL_ONLY);
        for (unsigned i = 0; i < U->getSize(); i++) if (U->down(i) > 0) cnt[U->down(i)]++;
        unpacked_node::Recycle(U);
    }
    std::vector<node_handle> roots;
    F->verifRoots(roots);
    for (node_handle r : roots) if (r > 0) cnt[r]++;
    nodes = refs = 0;
    for (node_handle h = 1; h <= last; h++) {
        if (!F->isActiveNode(h) || F->isDeletedNode(h)) continue;
        long in = long(F->getNodeInCount(h)), c = cnt.count(h) ? cnt[h] : 0;
        if (in > c) { nodes++; refs += in - c; }
    }
}

// dump + canonical-form / one-sided recount request + the harness' leak count
void emitAuditCanon(const std::string& fname, forest* F, const Kind& k) {
    emit("cleardump %s", fname.c_str());
    dumpForest(fname.c_str(), F, k);
    emit("auditcanon %s", fname.c_str());
    long n = 0, r = 0;
    leakCount(F, n, r);
    emit("leakinfo %s %ld %ld", fname.c_str(), n, r);
    if (r) STATS.hit("leak.refs", r);
}

struct HeldE { std::string name, fname; dd_edge e; };

struct Scene {
    Dom D;
    Kind k[3];
    Pol p[3];
    forest* F[3] = {nullptr, nullptr, nullptr};
    std::string fn[3] = {"Fa", "Fb", "Fc"};
    std::vector<HeldE*> held;
    std::vector<forest*> distinct() const {
        std::vector<forest*> v;
        for (int i = 0; i < 3; i++) if (std::find(v.begin(), v.end(), F[i]) == v.end()) v.push_back(F[i]);
        return v;
    }
    int firstIndexOf(forest* f) const { for (int i = 0; i < 3; i++) if (F[i] == f) return i; return 0; }
    HeldE* hold(const std::string& name, int fi) {
        HeldE* h = new HeldE{name, fn[firstIndexOf(F[fi])], dd_edge(F[fi])};
        held.push_back(h);
        return h;
    }
    void tables(bool unchanged) {
        for (HeldE* h : held) {
            emitTable(h->name, h->fname, D, h->e);
            if (unchanged) emit("unchanged %s", h->name.c_str());
        }
    }
    void audits() {
        for (forest* f : distinct()) { int i = firstIndexOf(f); emitAuditCanon(fn[i], f, k[i]); }
        for (HeldE* h : held) {
            int i = 0; for (int j = 0; j < 3; j++) if (fn[j] == h->fname) i = j;
            emitRoot(h->name, h->fname, h->e, k[i]);
        }
    }
    void destroy() {
        for (HeldE* h : held) delete h;
        held.clear();
        for (forest* f : distinct()) forest::destroy(f);
        D.destroy();
    }
};

// forests for a deep-error script: one numeric type, three forests that are either all the same object or
// differ in reduction rule / policy
void makeScene(Rng& r, Scene& S, const Kind& base, bool thorough, bool noIdentB = false) {
    S.D = randomDom(r, base.rel ? 1 : 2, base.rel ? 3 : (thorough ? 5 : 4), thorough ? 4 : 3, base.rel ? 900 : 400, base.rel);
    S.D.create();
    std::vector<reduction_rule> rules = {reduction_rule::FULLY_REDUCED, reduction_rule::QUASI_REDUCED};
    if (base.rel) rules.push_back(reduction_rule::IDENTITY_REDUCED);
    bool same = r.chance(1, 2);
    for (int i = 0; i < 3; i++) {
        S.k[i] = base;
        S.k[i].rr = r.pick(rules);
        // FINDING F7 (steered away unless --steer 0): EV+ MINUS with the subtrahend in an identity-reduced
        // forest returns a value instead of SUBTRACT_INFINITY
        if (noIdentB && S.k[i].rr == reduction_rule::IDENTITY_REDUCED && (i == 1 || same)) S.k[i].rr = reduction_rule::QUASI_REDUCED;
        S.p[i] = r.chance(1, 3) ? Pol::random(r) : Pol();
        if (i > 0 && same) { S.k[i] = S.k[0]; S.p[i] = S.p[0]; S.F[i] = S.F[0]; }
        else S.F[i] = makeForest(S.D.d, S.k[i], S.p[i]);
    }
    emits(S.D.str());
    for (int i = 0; i < 3; i++) emitForest(S.fn[i], S.F[i], S.k[i], S.p[i]);
}

Val safeVal(Rng& r, const Kind& k) {
    if (k.rt == range_type::REAL) { static const double p2[] = {1.0, 2.0, 0.5, -1.0, 4.0}; return Val::real(p2[r.below(5)]); }
    long v = r.range(1, 4);
    if (k.el == edge_labeling::MULTI_TERMINAL && r.chance(1, 4)) v = -v;
    return Val::integer(v);
}
Val anyVal(Rng& r, const Kind& k) {
    if (k.rt == range_type::REAL) { static const double g[] = {0.0, 1.0, 2.0, 3.0, -1.0, 0.5, 1.5, 4.0}; return Val::real(g[r.below(8)]); }
    bool evp = k.el == edge_labeling::EVPLUS;
    if (evp) return r.chance(1, 6) ? Val::inf() : Val::integer(r.range(0, 9));
    return Val::integer(r.range(-4, 9));
}
Val nonzeroFinite(Rng& r, const Kind& k) {
    if (k.rt == range_type::REAL) { static const double g[] = {1.0, 2.0, 3.0, -1.0, 0.5, 1.5}; return Val::real(g[r.below(6)]); }
    return Val::integer(r.range(1, 9));
}

void opOutcome(const char* res, const char* opname, binary_builtin0 op, Scene& S, HeldE* A, HeldE* B, HeldE* R) {
    try {
        apply(op, A->e, B->e, R->e);
        emit("op %s %s %s %s", res, opname, A->name.c_str(), B->name.c_str());
        emitTable(res, R->fname, S.D, R->e);
        STATS.hit(std::string("deep.ok.") + opname);
    } catch (error& e) {
        emit("err %s %s %s %s %s", res, opname, A->name.c_str(), B->name.c_str(), errName(e));
        emit("note thrown-at %s:%u", e.getFile(), e.getLine());
        STATS.hit(std::string("deep.err.") + opname + "." + errName(e));
    }
}

// S0/S1/S2: an error raised deep inside the recursion of a binary operation
void deepCase(const Args& A, long c, Rng& r) {
    // what: 0 DIVIDE by zero, 1 MODULO by zero, 2 MINUS infinity (EV+), 3 PLUS overflow, 4 MULTIPLY overflow
    int what = int(r.below(5));
    Kind base;
    const auto I = range_type::INTEGER;
    switch (what) {
        case 0: {
            int t = int(r.below(5));
            base = t == 0 ? mk(false, I, edge_labeling::MULTI_TERMINAL, reduction_rule::FULLY_REDUCED)
                 : t == 1 ? mk(true, I, edge_labeling::MULTI_TERMINAL, reduction_rule::FULLY_REDUCED)
                 : t == 2 ? mk(false, range_type::REAL, edge_labeling::MULTI_TERMINAL, reduction_rule::FULLY_REDUCED)
                 : t == 3 ? mk(false, I, edge_labeling::EVPLUS, reduction_rule::FULLY_REDUCED)
                          : mk(true, I, edge_labeling::EVPLUS, reduction_rule::FULLY_REDUCED);
            break;
        }
        case 1: {
            int t = int(r.below(3));
            base = t == 0 ? mk(false, I, edge_labeling::MULTI_TERMINAL, reduction_rule::FULLY_REDUCED)
                 : t == 1 ? mk(true, I, edge_labeling::MULTI_TERMINAL, reduction_rule::FULLY_REDUCED)
                          : mk(false, I, edge_labeling::EVPLUS, reduction_rule::FULLY_REDUCED);
            break;
        }
        case 2: base = mk(r.chance(1, 3), I, edge_labeling::EVPLUS, reduction_rule::FULLY_REDUCED); break;
        default: base = mk(r.chance(1, 3), I, edge_labeling::MULTI_TERMINAL, reduction_rule::FULLY_REDUCED); break;
    }
    static const char* opn[] = {"E_DIVIDE", "E_MODULO", "E_MINUS", "E_PLUS", "E_MULTIPLY"};
    static const binary_builtin0 ops[] = {DIVIDE, MODULO, MINUS, PLUS, MULTIPLY};
    static const char* whatn[] = {"div0", "mod0", "subinf", "plusovf", "multovf"};
    Scene S;
    beginCase(c);
    emit("note deep %s %s", whatn[what], base.str().c_str());
    makeScene(r, S, base, A.thorough(), what == 2 && A.getl("steer", 1) != 0);
    STATS.hit(std::string("deep.") + whatn[what]);
    size_t n = S.D.card(base.rel);
    // operands: A arbitrary, B safe everywhere; then the offending value is planted at `at`
    std::vector<Val> ta(n), tb(n), tb2;
    for (size_t i = 0; i < n; i++) { ta[i] = anyVal(r, base); tb[i] = safeVal(r, base); }
    if (what >= 3) for (size_t i = 0; i < n; i++) { ta[i] = Val::integer(r.range(-4, 9)); tb[i] = Val::integer(r.range(1, 4)); }
    // half of the time both operands depend on a random subset of the positions only, so that the offending
    // pair of values is met at a terminal ABOVE level 0 (or right at the root)
    size_t at = r.below(unsigned(n));
    std::vector<size_t> group(n);          // representative of every assignment under the projection
    {
        std::vector<int> psz;              // sizes of the positions, least significant first
        for (int x : S.D.sizes) { psz.push_back(x); if (base.rel) psz.push_back(x); }
        std::vector<bool> keep(psz.size(), true);
        if (r.chance(1, 2)) for (size_t j = 0; j < keep.size(); j++) keep[j] = r.chance(1, 2);
        for (size_t i = 0; i < n; i++) {
            size_t rest = i, rep = 0, mul = 1;
            for (size_t j = 0; j < psz.size(); j++) {
                size_t d = rest % size_t(psz[j]); rest /= size_t(psz[j]);
                if (keep[j]) rep += d * mul;
                mul *= size_t(psz[j]);
            }
            group[i] = rep;
        }
        for (size_t i = 0; i < n; i++) { ta[i] = ta[group[i]]; tb[i] = tb[group[i]]; }
        at = group[at];
        STATS.hit(std::count(keep.begin(), keep.end(), true) == long(keep.size()) ? "deep.dense" : "deep.projected");
    }
    tb2 = tb;
    const long BIG = (1L << 30) - 1;
    switch (what) {
        case 0: case 1:
            ta[at] = nonzeroFinite(r, base); tb[at] = base.rt == range_type::REAL ? Val::real(0.0) : Val::integer(0);
            // EV+: half of the time the dividend is +infinity exactly where the divisor is zero (inf / 0 and
            // inf % 0 are errors too: the zero-divisor test comes before the infinite-dividend case)
            if (base.el == edge_labeling::EVPLUS && r.chance(1, 2)) { ta[at] = Val::inf(); STATS.hit(std::string("deep.") + whatn[what] + ".inf-dividend"); }
            break;
        case 2: ta[at] = Val::integer(r.range(0, 9)); tb[at] = Val::inf(); break;
        case 3: ta[at] = Val::integer(BIG - r.range(0, 2)); tb[at] = Val::integer(3 + r.range(0, 5)); break;
        default: ta[at] = Val::integer(1L << 20); tb[at] = Val::integer(1L << 10); break;
    }
    // the planted pair spreads over the whole group of `at`
    for (size_t i = 0; i < n; i++) if (group[i] == at) { ta[i] = ta[at]; tb[i] = tb[at]; }
    emit("note planted-at %zu of %zu", at, n);
    HeldE* HA = S.hold("A", 0);
    HeldE* HB = S.hold("B", 1);
    HeldE* HB2 = S.hold("B2", 1);
    HeldE* H1 = S.hold("H1", 2);
    HeldE* H2 = S.hold("H2", 0);
    buildFromTable(S.D, S.F[0], S.k[0], ta, HA->e);
    buildFromTable(S.D, S.F[1], S.k[1], tb, HB->e);
    buildFromTable(S.D, S.F[1], S.k[1], tb2, HB2->e);
    {
        std::vector<Val> t1(n), t2(n);
        for (size_t i = 0; i < n; i++) { t1[i] = anyVal(r, base); t2[i] = anyVal(r, base); }
        if (what >= 3) for (size_t i = 0; i < n; i++) { t1[i] = Val::integer(r.range(-4, 9)); t2[i] = Val::integer(r.range(-4, 9)); }
        buildFromTable(S.D, S.F[2], S.k[2], t1, H1->e);
        buildFromTable(S.D, S.F[0], S.k[0], t2, H2->e);
        emit("input H1 %s", tableStr(t1).c_str());
        emit("input H2 %s", tableStr(t2).c_str());
    }
    emit("input A %s", tableStr(ta).c_str());
    emit("input B %s", tableStr(tb).c_str());
    emit("input B2 %s", tableStr(tb2).c_str());
    S.tables(false);
    fflush(stdout);
    // optionally warm the compute table with the safe computation first
    HeldE* R0 = S.hold("R0", 2);
    bool warm = r.chance(1, 3);
    if (warm) opOutcome("R0", opn[what], ops[what], S, HA, HB2, R0);
    // the failing call
    {
        HeldE* R = S.hold("R", 2);
        opOutcome("R", opn[what], ops[what], S, HA, HB, R);
        // the result edge of a failed call is not an observation
        S.held.pop_back();
        delete R;
    }
    S.tables(true);
    S.audits();
    // follow-up: the same operation with the safe operand must succeed and agree with the oracle,
    // the failing one must fail again in the same way
    HeldE* R2 = S.hold("R2", 2);
    opOutcome("R2", opn[what], ops[what], S, HA, HB2, R2);
    {
        HeldE* R3 = S.hold("R3", 2);
        opOutcome("R3", opn[what], ops[what], S, HA, HB, R3);
        S.held.pop_back();
        delete R3;
    }
    S.tables(true);
    S.audits();
    endCase();
    S.destroy();
}

std::string outcomeOf(const std::function<void()>& fn) {
    try { fn(); return "ok"; }
    catch (error& e) { return std::string("err ") + errName(e); }
}

// S3: values that do not fit a terminal
void valueCase(const Args& A, long c, Rng& r) {
    (void) A;
    Kind base = mk(r.chance(1, 3), range_type::INTEGER, edge_labeling::MULTI_TERMINAL, reduction_rule::FULLY_REDUCED);
    Scene S;
    beginCase(c);
    emit("note values %s", base.str().c_str());
    makeScene(r, S, base, false);
    STATS.hit("value.cases");
    size_t n = S.D.card(base.rel);
    HeldE* H1 = S.hold("H1", 0);
    HeldE* H2 = S.hold("H2", 2);
    {
        std::vector<Val> t1(n), t2(n);
        for (size_t i = 0; i < n; i++) { t1[i] = Val::integer(r.range(-4, 9)); t2[i] = Val::integer(r.range(-4, 9)); }
        buildFromTable(S.D, S.F[0], S.k[0], t1, H1->e);
        buildFromTable(S.D, S.F[2], S.k[2], t2, H2->e);
        emit("input H1 %s", tableStr(t1).c_str());
        emit("input H2 %s", tableStr(t2).c_str());
    }
    S.tables(false);
    const long P30 = 1L << 30;
    auto pickV = [&]() -> long {
        switch (r.below(10)) {
            case 0: return P30; case 1: return P30 - 1; case 2: return -P30; case 3: return -P30 - 1;
            case 4: return P30 + long(r.below(1000)); case 5: return -P30 - 1 - long(r.below(1000));
            case 6: return long(r.next() >> 2) * (r.chance(1, 2) ? 1 : -1);
            case 7: return (1L << 31) * (r.chance(1, 2) ? 1 : -1);
            case 8: return P30 - 1 - long(r.below(1000));
            default: return long(r.range(-100000, 100000));
        }
    };
    int rounds = 6 + int(r.below(6));
    forest* F = S.F[2];
    const Kind& k = S.k[2];
    for (int i = 0; i < rounds; i++) {
        long v = pickV();
        switch (r.below(4)) {
            case 0: {
                dd_edge e(F);
                emit("fit const %ld -> %s", v, outcomeOf([&] { F->createConstant(rangeval(v), e); }).c_str());
                break;
            }
            case 1:
                emit("fit handle %ld -> %s", v, outcomeOf([&] { (void) F->handleForValue(v); }).c_str());
                break;
            case 2: {
                // one minterm carrying the value (the rest of the collection is harmless)
                dd_edge e(F);
                minterm_coll mc(3, F);
                for (int j = 0; j < 3; j++) {
                    setMinterm(S.D, k.rel, r.below(unsigned(n)), mc.unused());
                    mc.unused().setValue(rangeval(j == 1 ? v : (v < 0 ? -long(j + 1) : long(j + 1))));
                    mc.pushUnused();
                }
                // max with default 0 would absorb a negative value before it is ever encoded
                emit("fit minterm %ld -> %s", v, outcomeOf([&] {
                    if (v < 0) mc.buildFunctionMin(rangeval(0L), e); else mc.buildFunctionMax(rangeval(0L), e);
                }).c_str());
                break;
            }
            default: {
                // createEdgeForVar with explicit terminals: the value sits in the MIDDLE of the array, so an
                // unpacked node with linked children is abandoned by the throw
                unsigned var = 1 + r.below(S.D.K());
                bool pr = k.rel && r.chance(1, 2);
                int sz = S.D.sizes[var - 1];
                std::vector<rangeval> terms;
                int pos = sz > 1 ? 1 + int(r.below(unsigned(sz - 1))) : 0;
                for (int j = 0; j < sz; j++) terms.push_back(rangeval(j == pos ? v : long(j + 1)));
                dd_edge e(F);
                emit("fit var %ld -> %s", v, outcomeOf([&] { F->createEdgeForVar(int(var), pr, terms.data(), e); }).c_str());
                break;
            }
        }
    }
    S.tables(true);
    S.audits();
    // follow-up in the same forests
    HeldE* R2 = S.hold("R2", 2);
    {
        HeldE* HA = S.hold("A", 0);
        HeldE* HB = S.hold("B", 1);
        std::vector<Val> ta(n), tb(n);
        for (size_t i = 0; i < n; i++) { ta[i] = Val::integer(r.range(-4, 9)); tb[i] = Val::integer(r.range(1, 4)); }
        buildFromTable(S.D, S.F[0], S.k[0], ta, HA->e);
        buildFromTable(S.D, S.F[1], S.k[1], tb, HB->e);
        emit("input A %s", tableStr(ta).c_str());
        emit("input B %s", tableStr(tb).c_str());
        emitTable("A", HA->fname, S.D, HA->e);
        emitTable("B", HB->fname, S.D, HB->e);
        opOutcome("R2", "E_PLUS", PLUS, S, HA, HB, R2);
    }
    S.tables(true);
    S.audits();
    endCase();
    S.destroy();
}

// S4: scripted misuse of the API around edges, minterms, iterators and forests
void misuseCase(const Args& A, long c, Rng& r) {
    (void) A;
    bool rel = r.chance(1, 3);
    Kind base = mk(rel, r.chance(1, 2) ? range_type::INTEGER : range_type::BOOLEAN, edge_labeling::MULTI_TERMINAL,
                   reduction_rule::FULLY_REDUCED);
    Scene S;
    beginCase(c);
    emit("note misuse %s", base.str().c_str());
    makeScene(r, S, base, false);
    STATS.hit("misuse.cases");
    size_t n = S.D.card(rel);
    HeldE* H1 = S.hold("H1", 0);
    HeldE* H2 = S.hold("H2", 2);
    std::vector<Val> t1 = randomTable(r, S.D, base, 50), t2 = randomTable(r, S.D, base, 50);
    if (base.rt == range_type::INTEGER) for (auto* t : {&t1, &t2}) for (auto& v : *t) if (v.n < 0) v.n = -v.n;
    buildFromTable(S.D, S.F[0], S.k[0], t1, H1->e);
    buildFromTable(S.D, S.F[2], S.k[2], t2, H2->e);
    emit("input H1 %s", tableStr(t1).c_str());
    emit("input H2 %s", tableStr(t2).c_str());
    S.tables(false);
    // auxiliary objects: a second domain, forests of the other shape / another labeling
    Dom D2; D2.sizes = S.D.sizes; D2.sizes.push_back(2); D2.create();
    Kind kOther = base; kOther.rel = !rel; kOther.rr = reduction_rule::FULLY_REDUCED;
    forest* FOtherShape = makeForest(S.D.d, kOther, Pol());
    forest* FOtherDom = makeForest(D2.d, base, Pol());
    Kind kEvp = mk(false, range_type::INTEGER, edge_labeling::EVPLUS, reduction_rule::FULLY_REDUCED);
    forest* FEvp = makeForest(S.D.d, kEvp, Pol());
    forest* F = S.F[0];
    forest* G = S.F[2];      // may be the same object as F
    rangeval one = base.rt == range_type::INTEGER ? rangeval(1L) : rangeval(true);
    auto M = [&](const char* scen, const std::function<void()>& fn) {
        emit("misuse %s %s", scen, outcomeOf(fn).c_str());
        fflush(stdout);
    };
    int rounds = 8 + int(r.below(8));
    for (int i = 0; i < rounds; i++) {
        switch (r.below(20)) {
            case 0: { dd_edge e(FOtherShape); M("const-wrong-forest", [&] { F->createConstant(one, e); }); break; }
            case 1: { dd_edge e; M("const-detached-edge", [&] { F->createConstant(one, e); }); break; }
            case 2: { dd_edge e(FOtherShape); M("var-wrong-forest", [&] { F->createEdgeForVar(1, false, e); }); break; }
            case 3: { dd_edge e(F); M("var-bad-index", [&] { F->createEdgeForVar(int(S.D.K()) + 1 + int(r.below(3)), false, e); }); break; }
            case 4: { dd_edge e(F); M("var-negative-index", [&] { F->createEdgeForVar(-1 - int(r.below(3)), false, e); }); break; }
            case 5: {
                if (rel) break;
                dd_edge e(F); M("var-primed-in-set", [&] { F->createEdgeForVar(1, true, e); });
                break;
            }
            case 6: {
                // a terminal of the wrong type in the middle of the array
                unsigned var = 1 + r.below(S.D.K());
                int sz = S.D.sizes[var - 1];
                std::vector<rangeval> terms;
                for (int j = 0; j < sz; j++) terms.push_back(j == sz - 1 ? rangeval(2.5) : (base.rt == range_type::INTEGER ? rangeval(long(j + 1)) : rangeval(j % 2 == 0)));
                dd_edge e(F); M("var-wrong-type", [&] { F->createEdgeForVar(int(var), false, terms.data(), e); });
                break;
            }
            case 7: { dd_edge e(F); M("const-wrong-type", [&] { F->createConstant(rangeval(2.5), e); }); break; }
            case 8: {
                minterm_coll mc(2, F);
                setMinterm(S.D, rel, r.below(unsigned(n)), mc.unused()); mc.unused().setValue(one); mc.pushUnused();
                dd_edge e; M("coll-detached-edge", [&] { mc.buildFunctionMax(base.zero().t == Val::B ? rangeval(false) : rangeval(0L), e); });
                break;
            }
            case 9: {
                minterm_coll mc(2, F);
                setMinterm(S.D, rel, r.below(unsigned(n)), mc.unused()); mc.unused().setValue(one); mc.pushUnused();
                dd_edge e(FOtherDom); M("coll-wrong-domain", [&] { mc.buildFunctionMax(base.zero().t == Val::B ? rangeval(false) : rangeval(0L), e); });
                break;
            }
            case 10: {
                minterm_coll mc(2, F);
                setMinterm(S.D, rel, r.below(unsigned(n)), mc.unused()); mc.unused().setValue(one); mc.pushUnused();
                dd_edge e(FOtherShape); M("coll-wrong-shape", [&] { mc.buildFunctionMax(base.zero().t == Val::B ? rangeval(false) : rangeval(0L), e); });
                break;
            }
            case 11: { minterm m(FOtherShape); rangeval v; M("eval-wrong-shape", [&] { H1->e.evaluate(m, v); }); break; }
            case 12: { minterm m(FOtherDom); rangeval v; M("eval-wrong-domain", [&] { H1->e.evaluate(m, v); }); break; }
            case 13: { dd_edge e; minterm m(F); rangeval v; M("eval-detached-edge", [&] { e.evaluate(m, v); }); break; }
            case 14: {
                // run an iterator to its end, then dereference it
                M("iter-exhausted", [&] {
                    dd_edge::iterator it = H1->e.begin();
                    long steps = 0;
                    while (it) { ++it; if (++steps > 100000) break; }
                    const minterm& m = *it;
                    (void) m;
                });
                break;
            }
            case 15: { M("iter-end", [&] { dd_edge::iterator it = H1->e.end(); const minterm& m = *it; (void) m; }); break; }
            case 16: {
                dd_edge o(FOtherShape);
                M("iter-restart-wrong-forest", [&] { dd_edge::iterator it = H1->e.begin(); it.restart(o); });
                break;
            }
            case 17: { minterm m(F); M("getelement-not-index-set", [&] { (void) H1->e.getElement(0, m); }); break; }
            case 18: {
                dd_edge e(FEvp); FEvp->createConstant(rangeval(3L), e); minterm m(FEvp);
                M("getelement-evplus", [&] { (void) e.getElement(0, m); });
                break;
            }
            default: {
                // an edge whose forest has been destroyed, used as operand / evaluated / as result
                forest* T = makeForest(S.D.d, base, Pol());
                dd_edge dead(T);
                T->createConstant(one, dead);
                forest::destroy(T);
                dd_edge res(G);
                bool boolean = base.rt == range_type::BOOLEAN;
                switch (r.below(4)) {
                    case 0: M("destroyed-operand", [&] { if (boolean) apply(UNION, dead, H2->e, res); else apply(PLUS, dead, H2->e, res); }); break;
                    case 1: M("destroyed-result", [&] { if (boolean) apply(UNION, H2->e, H2->e, dead); else apply(PLUS, H2->e, H2->e, dead); }); break;
                    case 2: { minterm m(F); rangeval v; M("destroyed-evaluate", [&] { dead.evaluate(m, v); }); break; }
                    default: M("destroyed-copy", [&] { apply(COPY, dead, res); }); break;
                }
                break;
            }
        }
    }
    // an operation object applied to a result edge (or operand) that is attached to another forest than the
    // one the operation was built for (former finding F8: no test, SIGSEGV; documented: FOREST_MISMATCH).
    // Always in a forked child: a library that does not refuse the call leaves a foreign node handle in the
    // edge, which must not poison this process; the child's fate is the observation.  (One misuse case in
    // three: a fork of this process costs 10-100 ms, more under ASan.)
    if (r.chance(1, 3)) {
        bool boolean = base.rt == range_type::BOOLEAN;
        std::string out = attempt([&] {
            binary_operation* bop = boolean ? build(UNION, F, F, G) : build(PLUS, F, F, G);
            forest* X = makeForest(S.D.d, base, Pol());     // same kind, but not the operation's result forest
            dd_edge res(X);
            bop->compute(H1->e, H1->e, res);
            // the edge now carries a node handle of G inside forest X: use it
            std::vector<Val> t = tableOf(S.D, res);
            std::vector<Val> want = tableOf(S.D, H1->e);
            if (t != want) throw error(error::MISCELLANEOUS, __FILE__, __LINE__);
        }, true);
        emit("misuse compute-foreign-result %s", out.c_str());
        out = attempt([&] {
            unary_operation* uop = build(COPY, F, G);
            forest* X = makeForest(S.D.d, base, Pol());
            dd_edge res(X);
            uop->compute(H1->e, res);
            std::vector<Val> t = tableOf(S.D, res);
            std::vector<Val> want = tableOf(S.D, H1->e);
            if (t != want) throw error(error::MISCELLANEOUS, __FILE__, __LINE__);
        }, true);
        emit("misuse compute-foreign-unary-result %s", out.c_str());
        out = attempt([&] {
            unary_operation* uop = build(COPY, F, G);
            forest* X = makeForest(S.D.d, base, Pol());     // same kind, but not the operation's operand forest
            dd_edge opnd(X), res(G);
            buildFromTable(S.D, X, base, t1, opnd);
            uop->compute(opnd, res);
            if (tableOf(S.D, res) != tableOf(S.D, opnd)) throw error(error::MISCELLANEOUS, __FILE__, __LINE__);
        }, true);
        emit("misuse compute-foreign-unary-operand %s", out.c_str());
    }
    S.tables(true);
    S.audits();
    // follow-up operation
    {
        HeldE* HA = S.hold("A", 0);
        HeldE* HB = S.hold("B", 1);
        HeldE* R2 = S.hold("R2", 2);
        std::vector<Val> ta = randomTable(r, S.D, base, 50), tb = randomTable(r, S.D, base, 50);
        if (base.rt == range_type::INTEGER) for (auto* t : {&ta, &tb}) for (auto& v : *t) if (v.n < 0) v.n = -v.n;
        buildFromTable(S.D, S.F[0], S.k[0], ta, HA->e);
        buildFromTable(S.D, S.F[1], S.k[1], tb, HB->e);
        emit("input A %s", tableStr(ta).c_str());
        emit("input B %s", tableStr(tb).c_str());
        emitTable("A", HA->fname, S.D, HA->e);
        emitTable("B", HB->fname, S.D, HB->e);
        if (base.rt == range_type::BOOLEAN) {
            try { apply(UNION, HA->e, HB->e, R2->e); emit("op R2 UNION A B"); emitTable("R2", R2->fname, S.D, R2->e); }
            catch (error& e) { emit("err R2 UNION A B %s", errName(e)); }
        } else opOutcome("R2", "E_PLUS", PLUS, S, HA, HB, R2);
    }
    S.tables(true);
    S.audits();
    endCase();
    forest::destroy(FOtherShape);
    forest::destroy(FOtherDom);
    forest::destroy(FEvp);
    D2.destroy();
    S.destroy();
}

// Case 99: reproducers of KNOWN FINDINGS that are still in the library, one forked child each.  The record is
// an ordinary `misuse` record: while the defect is present the acceptor reports ONE `DIFF ... kind=error-code
// misuse=<scenario> ...` line per run (matched by an entry of known_findings.jsonl); once the library raises the
// documented error the line disappears by itself.  Nothing is withheld from the other cases.
//
// F8b  binary_operation::compute(a, b, res) does not test that the OPERAND edges belong to the operation's
//      operand forests (the result edge is tested since the repair of F8): a node handle of a foreign forest
//      is read in the operation's forest -> wrong function or SIGSEGV.  Documented: FOREST_MISMATCH.
void knownFindingProbes(const Args& A) {
    (void) A;
    beginCase(99);
    Dom D;
    D.sizes = {2, 3, 2};
    D.create();
    emits(D.str());
    emit("note known-finding probes");
    Kind k = mk(false, range_type::INTEGER, edge_labeling::MULTI_TERMINAL, reduction_rule::FULLY_REDUCED);
    std::string out = attempt([&] {
        forest* F = makeForest(D.d, k, Pol());
        forest* X = makeForest(D.d, k, Pol());      // same kind, but not the operation's operand forest
        size_t n = D.card(false);
        std::vector<Val> tf(n), tx(n);
        for (size_t i = 0; i < n; i++) { tf[i] = Val::integer(long(i % 2)); tx[i] = Val::integer(long(i + 1)); }
        dd_edge a(F), b(X), res(F);
        buildFromTable(D, F, k, tf, a);             // one node in F
        buildFromTable(D, X, k, tx, b);             // many nodes in X
        binary_operation* bop = build(PLUS, F, F, F);
        bop->compute(a, b, res);                    // b's node handle is read in F
        std::vector<Val> got = tableOf(D, res);
        for (size_t i = 0; i < n; i++)
            if (got[i].n != tf[i].n + tx[i].n) throw error(error::MISCELLANEOUS, __FILE__, __LINE__);
    }, true);
    emit("misuse compute-foreign-operand %s", out.c_str());
    STATS.hit(out == "err FOREST_MISMATCH" ? "finding.F8b.repaired" : "finding.F8b.present");
    endCase();
    D.destroy();
}

int run(const Args& A) {
    libInit();
    ISOLATE = A.getl("isolate", 0) != 0;
    for (long c = 0; c < NOPS; c++) {
        if (!A.selected(c)) continue;
        tableCase(A, c);
    }
    if (A.selected(99)) knownFindingProbes(A);
    long nb = A.cases > 0 ? A.cases : (A.thorough() ? 900 : 300);
    for (long c = 100; c < 100 + nb; c++) {
        if (!A.selected(c)) continue;
        Rng r(Rng::mix(A.seed, uint64_t(c)));
        switch (r.below(10)) {
            case 0: case 1: case 2: case 3: case 4: deepCase(A, c, r); break;
            case 5: case 6: valueCase(A, c, r); break;
            default: misuseCase(A, c, r); break;
        }
    }
    libCleanup();
    return 0;
}
FamilyReg reg("errors", run, "C16 misuse is rejected with the documented error; functions stay intact");
}  // namespace
