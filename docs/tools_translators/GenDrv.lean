import MeddlyModel.Fam.GenAccept
def main (args : List String) : IO UInt32 := do
  let s ← IO.FS.readFile args.head!
  let lines := ((s.splitOn "\n").map (fun l => l.trimAscii.toString)).toArray
  let rep := Meddly.acceptGen lines
  rep.print
  return if rep.ok then 0 else 1
