#!/bin/bash
# usage: mut.sh <name> <header> <sed-expression>...    (header: forest_levels.h | hash_stream.h | defines.h)
# (a) regenerate from the mutated header, build the Props file; (b) clean model vs mutated harness; (b') regenerated model vs mutated harness
set -u
V=/tmp/aw_trans/verif
name=$1; hdr=$2; shift 2
D=/tmp/aw_trans/scratch/mut/$name
rm -rf $D; mkdir -p $D/inc
cp /repo/src/$hdr $D/inc/$hdr
for e in "$@"; do sed -i "$e" $D/inc/$hdr; done
echo "=== mutation $name: diff"
diff /repo/src/$hdr $D/inc/$hdr
if [ "$hdr" = hash_stream.h ]; then tr=hashstream_to_lean.py; gen=HashStream.lean; props=MeddlyModel.Props.HashStreamGen; else tr=levels_to_lean.py; gen=Levels.lean; props=MeddlyModel.Props.Levels; fi
# harness with the mutated header first on the include path
LIB=$(ls -d $V/.cache/build/lib-plain-*/ | head -1)libmeddly.a
# a complete private copy of the headers (meddly.h's own includes are resolved relative to ITS directory, so a
# lone mutated header in front of the include path would be shadowed by /repo/src's copy)
mkdir -p $D/repo; (cd /repo && find src \( -name '*.h' -o -name '*.hh' \) -print0 | xargs -0 cp --parents -t $D/repo); cp /repo/config.h $D/repo/; cp $D/inc/$hdr $D/repo/src/$hdr
for f in fam_gen common main; do g++ -std=gnu++17 -w -DMEDDLY_VERIF -DHAVE_CONFIG_H -O1 -g0 -I$D/repo -I$D/repo/src -I$V/harness -c $V/harness/$f.cc -o $D/$f.o || exit 1; done
g++ $D/fam_gen.o $D/common.o $D/main.o $LIB -lgmp -o $D/mdh || exit 1
$D/mdh gen --seed 1 --tier quick > $D/gen.tr; echo "harness rc=$?"
echo "=== (b) CLEAN model vs mutated library"
$V/lean/.lake/build/bin/drv $D/gen.tr > $D/b.out; grep -c '^DIFF' $D/b.out; grep '^DIFF' $D/b.out | sed 's/.*kind=\([a-z-]*\).*/\1/' | sort | uniq -c; grep '^DIFF' $D/b.out | head -4; tail -2 $D/b.out
echo "=== (a) regenerate + lake build $props"
cp $V/lean/MeddlyModel/Gen/$gen $D/$gen.clean
python3 $V/translate/$tr --out $V/lean/MeddlyModel/Gen/$gen --repo /repo -I $D/inc; echo "translator rc=$?"
diff $D/$gen.clean $V/lean/MeddlyModel/Gen/$gen | grep -v 'source:\|GENERATED\|^---\|^[0-9,]*c[0-9,]*$' | head -30
(cd $V/lean && lake build $props > $D/a.out 2>&1; echo "lake build rc=$?"; grep -c 'error:' $D/a.out; grep 'error:' $D/a.out | head -12)
echo "=== (b') REGENERATED model vs mutated library (scratch driver importing only Fam/GenAccept, interpreted)"
(cd $V/lean && lake build MeddlyModel.Fam.GenAccept > $D/drv.out 2>&1; echo "GenAccept build rc=$?"; lake env lean --run /tmp/aw_trans/scratch/mut/GenDrv.lean $D/gen.tr > $D/b2.out)
grep -c '^DIFF' $D/b2.out; grep '^DIFF' $D/b2.out | head -3; tail -2 $D/b2.out
# restore
python3 $V/translate/$tr --out $V/lean/MeddlyModel/Gen/$gen --repo /repo
(cd $V/lean && lake build > $D/restore.out 2>&1; echo "restore build rc=$?")
