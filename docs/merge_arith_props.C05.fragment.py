# entry to insert into PROPS in vlib/props.py (inside the dict).  The second family run (probe=1) needs the
# nine lines of known_findings.add.jsonl in known_findings.jsonl; without them use "quick": [fam("arith")],
# "thorough": [fam("arith", "asan")].
    "C05": {
        "title": "Element-wise arithmetic, comparison, min/max and user-defined maps are pointwise",
        "theorems": CORE + APPLY + ["Meddly.Arith." + t for t in [
            "arith_eval", "arith_error", "arith_error_iff", "arith_red", "arith_unique",
            "unary_eval", "unary_red", "range_max_spec", "range_min_spec", "plus_zero_shortcut",
            "plus_zero_left", "minus_self", "minus_self_unsound", "minus_inf_right_invalid", "mult_zero_left",
            "mult_one_right", "mult_zero_inf_unsound", "div_self", "div_zero_left", "div_zero_zero_unsound",
            "mod_self", "mod_inf_inf_unsound", "max_inf_right", "min_inf_right", "le_inf_right"]] + [
            "Meddly.DD.applyE2_eval_top", "Meddly.DD.applyE2_error_iff", "Meddly.DD.applyE2_unique",
            "Meddly.DD.applyE2_answer", "Meddly.DD.rangeFold_absorbs", "Meddly.DD.rangeFold_attained"],
        # second run: minimal reproductions of the FINDINGS (harness/fam_arith.cc runProbes, cases 900000..);
        # every probe case is a DIFF that the C05 entries of known_findings.jsonl turn into KNOWN-FINDING lines.
        "quick": [fam("arith"), fam("arith", probe=1)],
        "thorough": [fam("arith", "asan"), fam("arith", "asan", probe=1)],
        "leanchecker": ["MeddlyModel.Ops.Arith"],
        "design_ref": "DESIGN.md §5 C05",
        "level_text": "Lean: Spec.Arith.scalar is the scalar semantics of the 14 binary operations (integer, real, EV+ with infinity; C++ / and %; DIST_MIN; comparisons typed by the result range), scalar1 of DIST_INC and the user maps, supportBin the accepted (operand, operand, result) kind triples with their error codes. Ops.Arith.applyE2 is the generic apply of a PARTIAL scalar operation over three forests with independent reduction rules; theorems for every domain / rule triple / operand pair: arith_eval (a result denotes the scalar operation at every assignment), arith_error + arith_error_iff (the model raises code e iff the scalar operation is invalid with some code at some assignment; e is the code of such an assignment), arith_red + arith_unique (the result is THE reduced diagram of the pointwise function), unary_eval/unary_red, range_max_spec/range_min_spec (upper bound and attained); applyE2_answer (a shortcut answer is right iff it is reduced and denotes the scalar operation on its sub-domain) with the catalogue of scalar identities behind every terminal shortcut (Shortcut algebra: plus_zero_*, minus_self, mult_one_*, div_self, max_inf_* ... and the *_unsound / *_invalid theorems that pin down the shortcuts whose identity fails: the FINDINGS). Tie: differential runs of the real PLUS MINUS MULTIPLY DIVIDE MODULO MAXIMUM MINIMUM DIST_MIN, six comparisons, DIST_INC, user_unary_factory maps, MAX_RANGE/MIN_RANGE over random domains (sets and relations), all rule triples and aliasing patterns, value kinds int-MT / real-MT / EV+ / EV*, operand scenarios aimed at each shortcut, cold and warm compute table, error cases (planted zero / infinity) raised twice with the operands re-read and the forests reused afterwards, rejected kind triples against the support table, result forests certified by Dump.check.",
        "level_note": "The theorems are about the tree model (function values in the leaves); EV+ / EV* edge-value normal forms are not modelled (EV results are checked by table, recount and model evaluation of the dump). The library's terminal shortcuts are not modelled: they agree with the scalar rule except on the classes listed as FINDINGS (x/x, x%x, 0/x with zero divisors; inf-inf; EV+ MINUS with identity-reduced subtrahend forest; 0*inf; MAX/MIN_RANGE ignoring zeros; DIST_INC with identity-reduced argument or non-fully-reduced result; node leak after a raised error). The generator steers away from exactly these classes (counters steer.*), `--hidden 1` / `--probe 1` reproduce them. Reals: on an exactness-safe grid, compared with the library's own tolerance; integer overflow not exercised.",
        "technique": "Lean 4 proof (induction on positions, Except-monad apply as corollary of apply2) + differential correspondence with the scalar oracle + support table + dump certificate",
        "partial": ["EV+/EV* normal form not modelled (table-level check only)", "reals on the exactness grid; float rounding not modelled",
                    "terminal shortcuts of arith_*.cc: scalar identities + the lifting criterion applyE2_answer are proved, the per-operation shortcut tables are not transcribed (covered differentially)",
                    "64-bit / 31-bit overflow (VALUE_OVERFLOW) not exercised"],
    },
