#!/bin/bash
# Mutation test of translate/counterarray_to_lean.py + Props/CounterArrayGen.lean.
# Private mutated copies of arrays.h / arrays.cc (nothing in /repo touched); for each mutant:
#   translator with -I <dir>  ->  lake build MeddlyModel.Props.CounterArrayGen  (must FAIL, or the translator must reject)
# usage: docs/tools_counterarray/mut.sh [workdir]      (run from the verif root)
VERIF=$(cd "$(dirname "$0")/../.." && pwd)
REPO=${VERIF_REPO:-/repo}
W=${1:-/tmp/ca_mut}
GEN=$VERIF/lean/MeddlyModel/Gen/CounterArray.lean
rm -rf "$W"; mkdir -p "$W"
mutate() {  # name file perl-expression
  d=$W/$1; mkdir -p "$d"; cp "$REPO/src/$2" "$d/$2"
  perl -0pi -e "$3" "$d/$2"
  if cmp -s "$REPO/src/$2" "$d/$2"; then echo "MUTATION $1 DID NOT APPLY"; exit 1; fi
}
# 1 expand16to32 sets counts_09bit = 1 instead of counts_17bit = 1
mutate m1 arrays.cc 's/(MEDDLY_DCASSERT\(!counts_17bit\);\s*\n\s*)counts_17bit = 1;/${1}counts_09bit = 1;/'
# 2 increment compares 257 == data16[i]
mutate m2 arrays.h 's/(\+\+data16\[i\];\s*\n\s*if \()256( == data16\[i\]\) \+\+counts_09bit;\s*\n\s*if \(0 == data16\[i\]\) expand16to32\(i\);\s*\n\s*return;\s*\n\s*\}\s*\n\s*MEDDLY_DCASSERT\(data32\);\s*\n\s*data32\[i\]\+\+;\s*\n\s*if \(256 == data32\[i\]\) \+\+counts_09bit;\s*\n\s*if \(65536 == data32\[i\]\) \+\+counts_17bit;\s*\n\s*\}\s*\n\s*inline void decrement)/${1}257${2}/'
# 3 decrement (16-bit branch) forgets --counts_09bit
mutate m3 arrays.h 's/(inline void decrement.*?if \(256 == data16\[i\]\) \{\s*\n\s*MEDDLY_DCASSERT\(counts_09bit\);\s*\n)\s*--counts_09bit;\n/${1}/s'
# 4 shrink(): shrink32to16 chosen when counts_17bit != 0 (the realloc branch and the narrowing branch swapped off)
mutate m4 arrays.cc 's/(void MEDDLY::counter_array::shrink\(size_t ns\).*?case 4:.*?)if \(counts_17bit\) \{(.*?)\} else if \(counts_09bit\) \{\s*\n\s*shrink32to16\(ns\);/${1}if (!counts_17bit \&\& !counts_09bit) {${2}} else if (counts_09bit) {\n                shrink32to16(ns);/s'
# 5 isZeroBeforeIncrement does not call expand8to16
mutate m5 arrays.h 's/(inline bool isZeroBeforeIncrement.*?)if \(0 == \+\+data8\[i\]\) expand8to16\(i\);/${1}++data8[i];/s'
# extra: 6 wrong comparison constant 65535 in increment (32-bit), 7 expand8to16 writes 255, 8 memset in expand case 2 uses the wrong byte count
mutate m6 arrays.h 's/(inline void increment.*?)if \(65536 == data32\[i\]\) \+\+counts_17bit;/${1}if (65535 == data32[i]) ++counts_17bit;/s'
mutate m7 arrays.cc 's/data16\[j\] = 256;/data16[j] = 255;/'
mutate m8 arrays.cc 's/(void MEDDLY::counter_array::expand\(size_t ns\).*?)memset\(d16 \+ size, 0, \(ns-size\) \* bytes \);/${1}memset(d16 + size, 0, (ns-size) );/s'
cd "$VERIF"
printf "%-4s %-12s %-10s %s\n" "#" "translator" "lake" "first error"
for m in ${MUTANTS:-m1 m2 m3 m4 m5 m6 m7 m8}; do
  python3 translate/counterarray_to_lean.py --repo "$REPO" -I "$W/$m" --out "$GEN" > "$W/$m/tr.log" 2>&1; trc=$?
  if [ $trc -ne 0 ]; then printf "%-4s %-12s %-10s %s\n" $m "REJECTS($trc)" "-" "$(head -1 $W/$m/tr.log | cut -c1-150)"; continue; fi
  cp "$GEN" "$W/$m/CounterArray.lean"
  (cd lean && lake build MeddlyModel.Props.CounterArrayGen > "$W/$m/lake.log" 2>&1); lrc=$?
  first=$(grep -m1 "^error: .*CounterArrayGen.lean" "$W/$m/lake.log" | sed 's/^error: MeddlyModel.Props.//' | cut -c1-110)
  n=$(grep -c "^error: .*CounterArrayGen.lean" "$W/$m/lake.log")
  printf "%-4s %-12s %-10s %s\n" $m "ok" "$([ $lrc -ne 0 ] && echo FAILS || echo PASSES)" "$n errors; $first"
done
python3 translate/counterarray_to_lean.py --repo "$REPO" --out "$GEN" > /dev/null
(cd lean && lake build MeddlyModel.Props.CounterArrayGen > "$W/clean.log" 2>&1) && echo "clean tree: Props/CounterArrayGen builds again"
