# entries to insert into PROPS in vlib/props.py (inside the dict), followed by the two ORACLE_KINDS lines (end of file)
    "C11": {
        "title": "Enumeration and counting agree with the function",
        "theorems": ["Meddly.DD.enumerate_spec", "Meddly.DD.enumerateMask_spec", "Meddly.DD.enumerate_mem_iff",
                     "Meddly.DD.enumerate_sorted", "Meddly.DD.card_eq_length",
                     "Meddly.Dump.nodeCount_spec", "Meddly.Dump.edgeCount_spec",
                     "Meddly.Dump.evalFast_eq_evalChild"],
        "quick": [fam("iter")],
        "thorough": [fam("iter", "asan")],
        "leanchecker": ["MeddlyModel.Ops.Enumerate"],
        "design_ref": "DESIGN.md §5 C11",
        "level_text": "Lean model of dd_edge::iterator (first_unpr/first_pri/next: top-down, indices ascending, transparent terminal never entered, skipped red positions expanded, skipped ident positions forced to the value above, bound positions / DONT_CHANGE from the mask) with enumerateMask_spec / enumerate_spec for EVERY shape (all three reduction modes, any sizes), tree, mask and prefix: the visited list equals the lexicographic list of all assignments filtered by (matches mask and value != transparent), with the function's value - hence sorted (enumerate_sorted), duplicate-free, complete and value-correct (enumerate_mem_iff). card (mirror of card_templ: skipped positions scale by the variable size except ident positions) equals the length of that enumeration (card_eq_length). Dump.nodeCount / edgeCount equal the number of distinct handles reachable (inductive Reach) and the sum of their full / non-transparent child entries (nodeCount_spec, edgeCount_spec). Tie: differential - every forest kind (MT bool/int/real sets and relations under all rules, EV+ sets/relations, EV*), random functions incl. identity patterns, the full visit sequence of the real iterator with no mask, EVERY mask on tiny domains and random masks (fixed / free / DONT_CHANGE, restart on a live iterator) compared order-sensitively with the right-hand side of the spec theorem computed from the edge's evaluate() table; CARDINALITY into long, double and mpz (plus cubes over up to 180 variables, counts far beyond 2^64, against exact products); getNodeCount / getEdgeCount(true/false) recounted by the model on a dump of the real node store; for MT forests the MODEL iterator and model cardinality are run on the unfolded real node structure and compared with the table.",
        "level_note": "Theorems are about the MT tree model; EV+ / EV* accumulation of edge values along the path is tied only differentially (visited values compared with evaluate()). The guard `up < size` at a skipped ident position in the model has no counterpart in the code (vacuous when primed and unprimed sizes agree, hypothesis of card_eq_length). Random-start iterators (dd_edge::random) and iterator equality beyond end-comparison are not covered. long/double results are compared exactly only below 2^62 / within 2^-40 relative.",
        "technique": "Lean 4 proof (induction on positions, list algebra) + differential correspondence (order-sensitive visit sequences, three result types, recount on dumps)",
        "partial": ["EV edge-value accumulation not in the tree model (differential only)", "dd_edge::random iterators not covered"],
    },
    "C15": {
        "title": "Index sets number the members of a set 0..n-1 in lexicographic order",
        "theorems": ["Meddly.IndexSet.index_eval", "Meddly.IndexSet.header_spec",
                     "Meddly.IndexSet.getElementSpec_rank", "Meddly.IndexSet.getElementSpec_some",
                     "Meddly.IndexSet.getElementSpec_none", "Meddly.IndexSet.getElement_spec",
                     "Meddly.DD.enumerate_spec"],
        "quick": [fam("index")],
        "thorough": [fam("index", "asan")],
        "leanchecker": ["MeddlyModel.Ops.IndexSet"],
        "design_ref": "DESIGN.md §5 C15",
        "level_text": "Lean model toIndex of mdd2index_operation::_compute on MT-bool trees (skipped positions unpacked as redundant nodes, children left to right, running total as edge value of non-empty children, total in the header, all-empty node -> transparent terminal) with index_eval: for every shape without identity positions (sets, fully or quasi reduced), every tree and every valid assignment the resulting EV+ tree evaluates to rank (= number of members lexicographically smaller) on members and to +infinity on non-members; header_spec: returned / stored cardinality = number of members, every node's header = sum of its children's. List level: getElementSpec i = i-th member in lexicographic order; getElementSpec_rank / _some / _none: it inverts rank and fails exactly outside 0..n-1 (always on the empty set); getElement_spec: the model of dd_edge::getElemLong (backward linear search over the sparse entries for the last edge value <= index, level by level, final test index > 0) run on toIndex's result returns getElementSpec for EVERY index (negative, inside, beyond n) and every set over at least one variable. Tie: differential - ALL subsets of the domains (2),(2,2),(3,2),(2,2,2) from fully- and quasi-reduced sources (warm compute table) and random larger domains: evaluate() table of the result against indexSpec, getElement(i) for i in -1..n+1 against getElementSpec, getIndexSetCardinality of EVERY node of the index forest recounted on a dump, iteration over the index set, source unchanged.",
        "level_note": "Theorems are about the Lean tree model of the EV+ index-set nodes (full child vector with offsets + stored cardinality); the model of getElement answers `none` when the root is the transparent terminal, where the real code dereferences the terminal: known finding F2 (getElement(i>=0) on the index set of the EMPTY set -> SIGSEGV), probed in a forked child in case 0; while it reproduces the other cases only ask i=-1 on empty index sets, once repaired they ask the whole range again (automatic). The compute table of the conversion (keyed by source node, only at the node's own level) is exercised warm but not modelled. getElemInt (int edge values) is unreachable: index-set forests use long edge values.",
        "technique": "Lean 4 proof (induction on positions; sorted-list rank lemmas) + exhaustive-small and random differential correspondence",
        "partial": ["convert2index compute table not modelled (exercised warm, differential)"],
    },

# ---- append at the end of vlib/props.py
ORACLE_KINDS["iter"] = ORACLE_KINDS["*"] | {"iter-sequence", "cardinality", "node-count-edge", "edge-count",
                                            "iter-end-stays", "iter-eq-end", "missing-result"}
ORACLE_KINDS["index"] = ORACLE_KINDS["*"] | {"get-element", "header-cardinality", "iter-sequence", "cardinality"}
