#!/bin/bash
# mut.sh <name> <file relative to repo_mut> <python-regex-old> <new>   : apply, build, run quick seed 1..2, revert
name=$1; file=$2; old=$3; new=$4
cd /tmp/aw_reach/repo_mut
cp $file /tmp/aw_reach/mut_backup.cc
python3 - "$file" "$old" "$new" <<'PY'
import sys,re
f,old,new=sys.argv[1:4]
s=open(f).read()
n=len(re.findall(old,s,flags=re.S))
if n!=1:
    print("PATTERN MATCHES",n); sys.exit(1)
s=re.sub(old,lambda m:new,s,count=1,flags=re.S)
open(f,'w').write(s)
PY
if [ $? -ne 0 ]; then cp /tmp/aw_reach/mut_backup.cc $file; exit 1; fi
cd /tmp/aw_reach/verif
BM=$(VERIF_REPO=/tmp/aw_reach/repo_mut python3 vlib/build.py plain 2>&1 | tail -1)
for seed in 1 2; do
  timeout 900 $BM/mdh reach --seed $seed --case-timeout 20 > /tmp/aw_reach/m.txt 2>/tmp/aw_reach/m.err; rc=$?
  if [ $rc -ne 0 ]; then echo "crash exit=$rc" >> /tmp/aw_reach/m.txt; fi
  lean/.lake/build/bin/drv /tmp/aw_reach/m.txt > /tmp/aw_reach/m.out
  echo "MUT $name seed=$seed rc=$rc non-probe-diffs=$(grep '^DIFF' /tmp/aw_reach/m.out | grep -vc 'case=9000') probe-diffs=$(grep '^DIFF' /tmp/aw_reach/m.out | grep -c 'case=9000')"
  grep '^DIFF' /tmp/aw_reach/m.out | grep -v 'case=9000' | head -2 | cut -c1-220
done
cp /tmp/aw_reach/mut_backup.cc /tmp/aw_reach/repo_mut/$file
