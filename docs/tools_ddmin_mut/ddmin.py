#!/usr/bin/env python3
"""ddmin.py <mdh> "<scenario>" [pattern]  -- shrink a scenario while the forked run still shows `pattern`
(default: an `eq ... 0` line or a non-returned probe)."""
import subprocess, sys, re
mdh, scn = sys.argv[1], sys.argv[2]
pat = re.compile(sys.argv[3] if len(sys.argv) > 3 else r"^(eq .* 0$|probe \S+ \S+ (signal|exit))", re.M)
def bad(items):
    s = ";".join(items)
    try:
        out = subprocess.run([mdh, "reach", "--fork", "1", "--scenario", s], stdout=subprocess.PIPE, stderr=subprocess.DEVNULL, text=True, timeout=60).stdout
    except subprocess.TimeoutExpired:
        return False
    return pat.search(out) is not None
items = [x for x in scn.split(";") if x]
assert bad(items), "does not reproduce"
def used_names(items):
    u = set()
    for it in items:
        if it.startswith("C:"):
            f = it.split(":"); u.add(f[3]); u.add(f[4])
    return u
changed = True
while changed:
    changed = False
    # drop whole items (not header items)
    i = 0
    while i < len(items):
        it = items[i]
        if it[0] in "RICXA" and (len(it) == 1 or it[1] == ":"):
            cand = items[:i] + items[i+1:]
            # keep definitions that are still used
            if it[0] in "RI" and it.split(":")[1] in used_names(cand):
                i += 1; continue
            if bad(cand):
                items = cand; changed = True; continue
        i += 1
    # drop edges / init states
    for i, it in enumerate(items):
        if it[:2] in ("R:", "I:"):
            f = it.split(":")
            elems = [e for e in f[2].split(",") if e]
            j = 0
            while j < len(elems):
                ce = elems[:j] + elems[j+1:]
                cand = items[:i] + [f[0] + ":" + f[1] + ":" + ",".join(ce)] + items[i+1:]
                if bad(cand):
                    elems = ce; items = cand; changed = True
                else:
                    j += 1
    # simplify policies
    for i, it in enumerate(items):
        if it.startswith("pol."):
            cand = items[:i] + items[i+1:]
            if bad(cand):
                items = cand; changed = True; break
print(";".join(items))
