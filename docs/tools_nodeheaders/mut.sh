#!/bin/bash
# Mutation test of translate/nodeheaders_to_lean.py + Props/NodeHeadersGen.lean.
# Private mutated copies of node_headers.h / node_headers.cc (nothing in /repo touched); for each mutant:
#   translator with -I <dir>  ->  lake build MeddlyModel.Props.NodeHeadersGen  (must FAIL, or the translator must reject)
# usage: docs/tools_nodeheaders/mut.sh [workdir]      (run from the verif root)
VERIF=$(cd "$(dirname "$0")/../.." && pwd)
REPO=${VERIF_REPO:-/repo}
W=${1:-/tmp/nh_mut}
GEN=$VERIF/lean/MeddlyModel/Gen/NodeHeaders.lean
rm -rf "$W"; mkdir -p "$W"
mutate() {  # name file perl-expression
  d=$W/$1; mkdir -p "$d"; cp "$REPO/src/$2" "$d/$2"
  perl -0pi -e "$3" "$d/$2"
  if cmp -s "$REPO/src/$2" "$d/$2"; then echo "MUTATION $1 DID NOT APPLY"; exit 1; fi
}
# 1 lastUnlink tests !pessimistic
mutate m1 node_headers.cc 's/(void MEDDLY::node_headers::lastUnlink.*?)if \(pessimistic\) \{/${1}if (!pessimistic) {/s'
# 2 lastUncache forgets parent.deleteNode (active, unreachable node whose last cache entry goes: only the handle is recycled)
mutate m2 node_headers.cc 's/(void MEDDLY::node_headers::lastUncache.*?)parent\.deleteNode\(p\);(\s*recycleNodeHandle\(p\);\s*\}\s*\}\s*\})/${1}${2}/s'
# 3 uncacheNode calls lastUncache when the count is still positive
mutate m3 node_headers.h 's/if \(cache_counts->isPositiveAfterDecrement\(size_t\(p\)\)\) \{/if (!cache_counts->isPositiveAfterDecrement(size_t(p))) {/'
# 4 linkNode does not revive
mutate m4 node_headers.h 's/if \(incoming_counts->isZeroBeforeIncrement\(size_t\(p\)\)\) \{\s*reviveNode\(p\);\s*\}/incoming_counts->isZeroBeforeIncrement(size_t(p));/s'
# 5 recycle when the cache count is > 0: the pessimistic branch of lastUnlink also recycles the handle
mutate m5 node_headers.cc 's/(Delete; keep handle until caches are cleared.\s*\/\/\s*parent\.deleteNode\(p\);)/${1}\n        recycleNodeHandle(p);/s'
# extra: 6 lastUnlink compares the cache count with 1; 7 cacheNode increments the incoming count; 8 unlinkNode uses the cache counts;
#        9 isDeleted tests the level against 1; 10 lastUncache on a deleted handle does not recycle; 11 lastUnlink: delete without recycle
mutate m6 node_headers.cc 's/\(cache_counts && \(0==cache_counts->get\(size_t\(p\)\)\)\)/(cache_counts \&\& (1==cache_counts->get(size_t(p))))/'
mutate m7 node_headers.h 's/cache_counts->increment\(size_t\(p\)\);/incoming_counts->increment(size_t(p));/'
mutate m8 node_headers.h 's/if \(incoming_counts->isPositiveAfterDecrement\(size_t\(p\)\)\) \{/if (cache_counts->isPositiveAfterDecrement(size_t(p))) {/'
mutate m9 node_headers.h 's/return \(0==levels->get\(size_t\(p\)\)\);/return (1==levels->get(size_t(p)));/'
mutate m10 node_headers.cc 's/(Must be using pessimistic.*?)recycleNodeHandle\(p\);/${1}/s'
mutate m11 node_headers.cc 's/(Unreachable and not in any caches.  Delete and recycle handle.\s*\/\/\s*parent\.deleteNode\(p\);\s*)recycleNodeHandle\(p\);/${1}/s'
# rejected by the translator: 12 unlinkNode touches another handle; 13 a loop; 14 recycleNodeHandle clears the level; 15 forest::deleteNode no longer deactivates
mutate m12 node_headers.h 's/if \(incoming_counts->isPositiveAfterDecrement\(size_t\(p\)\)\) \{/if (incoming_counts->isPositiveAfterDecrement(size_t(p+1))) {/'
mutate m13 node_headers.cc 's/(void MEDDLY::node_headers::lastUncache\(node_handle p\)\s*\{)/${1}\n    while (isDeleted(p)) { }/'
mutate m14 node_headers.cc 's/(mstats\.decMemUsed\(h_bits\/8\);\s*a_freed\+\+;)/${1}\n    levels->set(pp, 0);/'
mutate m15 forest.cc 's/nodeHeaders\.deactivate\(p\);/\/\/ nodeHeaders.deactivate(p);/'
cd "$VERIF"
printf "%-4s %-12s %-8s %s\n" "#" "translator" "lake" "first error"
for m in ${MUTANTS:-m1 m2 m3 m4 m5 m6 m7 m8 m9 m10 m11 m12 m13 m14 m15}; do
  python3 translate/nodeheaders_to_lean.py --repo "$REPO" -I "$W/$m" --out "$GEN" > "$W/$m/tr.log" 2>&1; trc=$?
  if [ $trc -ne 0 ]; then printf "%-4s %-12s %-8s %s\n" $m "REJECTS($trc)" "-" "$(head -1 $W/$m/tr.log | cut -c1-230)"; continue; fi
  cp "$GEN" "$W/$m/NodeHeaders.lean"
  (cd lean && lake build MeddlyModel.Props.NodeHeadersGen > "$W/$m/lake.log" 2>&1); lrc=$?
  first=$(grep -m1 "^error: .*NodeHeadersGen.lean" "$W/$m/lake.log" | sed 's/^error: MeddlyModel.Props.//' | cut -c1-60)
  n=$(grep -c "^error: .*NodeHeadersGen.lean" "$W/$m/lake.log")
  thms=$(python3 docs/tools_nodeheaders/broken.py lean/MeddlyModel/Props/NodeHeadersGen.lean "$W/$m/lake.log" | cut -c1-200)
  printf "%-4s %-12s %-8s %s\n" $m "ok" "$([ $lrc -ne 0 ] && echo FAILS || echo PASSES)" "$n errors; $first; broken: $thms"
done
python3 translate/nodeheaders_to_lean.py --repo "$REPO" --out "$GEN" > /dev/null
(cd lean && lake build MeddlyModel.Props.NodeHeadersGen > "$W/clean.log" 2>&1) && echo "clean tree: Props/NodeHeadersGen builds again"
