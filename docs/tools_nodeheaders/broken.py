#!/usr/bin/env python3
"""names of the theorems / examples of a Lean file in which `lake build` reported errors:  broken.py FILE.lean lake.log"""
import re, sys
src = open(sys.argv[1], encoding="utf-8").read().split("\n")
starts = []
for i, l in enumerate(src, 1):
    m = re.match(r"(?:theorem|example|def|instance)\s*([A-Za-z0-9_.']*)", l)
    if m:
        starts.append((i, m.group(1) or "example@%d" % i))
out = []
for l in open(sys.argv[2], encoding="utf-8", errors="replace"):
    m = re.match(r"error: .*?\.lean:(\d+):\d+", l)
    if m:
        ln = int(m.group(1))
        name = [n for s, n in starts if s <= ln]
        if name and name[-1] not in out:
            out.append(name[-1])
print(" ".join(out))
