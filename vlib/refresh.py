#!/usr/bin/env python3
"""Run every claimed check (quick, seed 1) on the current tree sequentially, then validate MANIFEST and
evidence files.  Use before committing evidence."""
import json, os, subprocess, sys, time
V = os.path.dirname(os.path.dirname(os.path.abspath(__file__)))
m = json.load(open(os.path.join(V, "MANIFEST.json")))
only = sys.argv[1:]
subprocess.run([sys.executable, os.path.join(V, "vlib", "thmmodules.py")])
bad = []
# the whole Lean library and the driver must build on the clean tree (a check alone falls back to the modules
# of its own theorems and a previously built driver when the library-wide build fails - right for a mutated
# /repo, wrong for a mistake of ours)
lb = subprocess.run(["lake", "build"], cwd=os.path.join(V, "lean"), stdout=subprocess.PIPE, stderr=subprocess.STDOUT, text=True)
if lb.returncode != 0:
    print("LAKE BUILD FAILED\n" + lb.stdout[-1500:])
    bad.append("lake-build")
for c in m["checks"]:
    pid = c["property_id"]
    if only and pid not in only:
        continue
    t0 = time.time()
    p = subprocess.run(c["quick_cmd"].split(), cwd=V, stdout=subprocess.PIPE, stderr=subprocess.PIPE, text=True,
                       env=dict(os.environ, VERIF_SEED="1", VERIF_TIER="quick"))
    last = [l for l in p.stdout.splitlines() if l.startswith(("OK", "VIOLATION"))]
    print(pid, "exit", p.returncode, "%.0fs" % (time.time() - t0), last[-1] if last else p.stderr[-300:], flush=True)
    if p.returncode != 0:
        bad.append(pid)
    e = json.load(open(os.path.join(V, c["evidence_file"])))
    if e["coverage"]["obligations"] != e["coverage"]["discharged"]:
        bad.append(pid + ":discharged")
r = subprocess.run(["python3-vt", os.path.join(V, "vlib", "validate.py")], stdout=subprocess.PIPE, stderr=subprocess.STDOUT, text=True)
print(r.stdout[-600:])
print("BAD:", bad)
sys.exit(1 if bad or r.returncode else 0)
