#!/usr/bin/env python3
"""merge_props.py <delivered props.py> <Cxx>...  : copy evaluated PROPS entries (and family ORACLE_KINDS) into vlib/props.py"""
import importlib.util, os, sys, pprint
V = os.path.dirname(os.path.dirname(os.path.abspath(__file__)))
spec = importlib.util.spec_from_file_location("dprops", sys.argv[1]); m = importlib.util.module_from_spec(spec); spec.loader.exec_module(m)
sys.path.insert(0, os.path.join(V, "vlib")); import props as mine
p = os.path.join(V, "vlib", "props.py"); s = open(p).read()
for pid in sys.argv[2:]:
    e = m.PROPS[pid]
    txt = '    "%s": %s,\n' % (pid, pprint.pformat(e, width=160, sort_dicts=False).replace("\n", "\n    "))
    assert ('    "%s": {' % pid) not in s, pid + " already present"
    s = s.replace("}\n\nNOT_YET = {}", txt + "}\n\nNOT_YET = {}", 1)
    fams = {f["family"] for f in e["quick"] + e.get("thorough", [])}
    for f in fams:
        if f in m.ORACLE_KINDS and f not in mine.ORACLE_KINDS:
            extra = sorted(m.ORACLE_KINDS[f] - m.ORACLE_KINDS["*"])
            s = s.rstrip() + '\nORACLE_KINDS["%s"] = ORACLE_KINDS["*"] | %r\n' % (f, set(extra))
open(p, "w").write(s)
print("merged", sys.argv[2:])
