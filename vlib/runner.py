import argparse, hashlib, json, os, re, shutil, subprocess, sys, time, tempfile

VERIF = os.path.dirname(os.path.dirname(os.path.abspath(__file__)))
sys.path.insert(0, os.path.join(VERIF, "vlib"))
import build as B
import props as P
import leanaudit

LEAN = os.path.join(VERIF, "lean")
DRV = os.path.join(LEAN, ".lake", "build", "bin", "drv")
REPLAY = os.path.join(VERIF, "replay")
EVID = os.environ.get("VERIF_EVIDENCE_DIR") or os.path.join(VERIF, "evidence")   # seeded-change trials write elsewhere
KNOWN = os.path.join(VERIF, "known_findings.jsonl")


def log(*a):
    print(*a, file=sys.stderr, flush=True)


def sh(cmd, **kw):
    return subprocess.run(cmd, stdout=subprocess.PIPE, stderr=subprocess.STDOUT, text=True, **kw)


# ----------------------------------------------------------------------------- translators
def run_translators():
    """Regenerate MeddlyModel/Gen/*.lean from /repo's current headers.  Returns list of
    (name, ok, message)."""
    out = []
    t = os.path.join(VERIF, "translate", "terminal_to_lean.py")
    if os.path.exists(t):
        r = sh([sys.executable, t, "--out", os.path.join(LEAN, "MeddlyModel", "Gen", "Terminal.lean"),
                "--repo", B.REPO])
        out.append(("Gen.Terminal", r.returncode == 0, r.stdout[-2000:]))
    for name, script, target in (("Gen.Levels", "levels_to_lean.py", "Levels.lean"),
                                 ("Gen.HashStream", "hashstream_to_lean.py", "HashStream.lean"),
                                 ("Gen.CounterArray", "counterarray_to_lean.py", "CounterArray.lean"),
                                 ("Gen.NodeHeaders", "nodeheaders_to_lean.py", "NodeHeaders.lean")):
        t = os.path.join(VERIF, "translate", script)
        if os.path.exists(t):
            r = sh([sys.executable, t, "--out", os.path.join(LEAN, "MeddlyModel", "Gen", target), "--repo", B.REPO])
            out.append((name, r.returncode == 0, r.stdout[-2000:]))
    return out


# ----------------------------------------------------------------------------- lean
def lake_build(targets=None):
    cmd = ["lake", "build"] + (targets or [])
    r = sh(cmd, cwd=LEAN)
    return r.returncode == 0, r.stdout


def theorem_modules(theorems):
    p = os.path.join(VERIF, "vlib", "theorem_modules.json")
    if not os.path.exists(p):
        return set()
    m = json.load(open(p))
    return {m[t] for t in theorems if t in m}


# ----------------------------------------------------------------------------- known findings
def load_known():
    out = []
    if os.path.exists(KNOWN):
        for line in open(KNOWN):
            line = line.strip()
            if not line or line.startswith("#"):
                continue
            out.append(json.loads(line))
    return out


def known_match(kf, pid, family, diffline):
    if kf.get("status") != "known":
        return False
    # a finding recorded for a family applies wherever that family's workload is re-run (e.g. the reach
    # family under another compute-table configuration for C07); otherwise it is tied to its property
    if kf.get("family"):
        if kf["family"] != family:
            return False
    elif kf.get("property") != pid:
        return False
    return re.search(kf["match"], diffline) is not None


# ----------------------------------------------------------------------------- harness + driver
class FamRun:
    def __init__(self, spec):
        self.spec = spec
        self.family = spec["family"]
        self.diffs = []          # DIFF lines
        self.checked = 0
        self.stats = {}
        self.mstats = {}
        self.samples = []
        self.cases = 0
        self.distinct = set()    # hashes of case bodies (distinct cases actually generated)
        self.rc = None
        self.crash = None
        self.transcript = None
        self.cmd = None
        self.wall = 0.0


def run_family(spec, tier, seed, workdir, extra=None, keep_name=None):
    fr = FamRun(spec)
    flavor = spec.get("flavor", "plain")
    bdir = B.build(flavor)
    mdh = os.path.join(bdir, "mdh")
    args = [mdh, spec["family"], "--seed", str(seed), "--tier", tier]
    for k, v in (spec.get("args") or {}).items():
        args += ["--" + k, str(v)]
    for k, v in (extra or {}).items():
        args += ["--" + k, str(v)]
    fr.cmd = " ".join(args)
    tpath = os.path.join(workdir, (keep_name or spec["family"]) + ".transcript")
    env = dict(os.environ)
    env["ASAN_OPTIONS"] = "detect_leaks=0:abort_on_error=0:halt_on_error=1"
    env["UBSAN_OPTIONS"] = "print_stacktrace=1:halt_on_error=1"
    t0 = time.time()
    with open(tpath, "w") as out:
        p = subprocess.run(args, stdout=out, stderr=subprocess.PIPE, text=True, env=env,
                           timeout=int(spec.get("timeout", 3000)))
    fr.rc = p.returncode
    fr.transcript = tpath
    stderr = p.stderr or ""
    if p.returncode != 0:
        fr.crash = "harness exit=%d\n%s" % (p.returncode, stderr[-3000:])
        with open(tpath, "a") as out:
            # make the abnormal end visible to the acceptor
            sig = stderr.strip().splitlines()
            first = ""
            for l in sig:
                if "ERROR: AddressSanitizer" in l or "runtime error" in l or "SUMMARY" in l:
                    first = l.strip()
                    break
            out.write("\ncrash exit=%d %s\n" % (p.returncode, first.replace("\n", " ")))
    r = subprocess.run([DRV, tpath], stdout=subprocess.PIPE, stderr=subprocess.STDOUT, text=True)
    fr.wall = time.time() - t0
    only = re.compile(spec["only"]) if spec.get("only") else None
    for line in r.stdout.splitlines():
        if line.startswith("DIFF "):
            if only is not None and not only.search(line):
                fr.mstats["diffs.other-property"] = fr.mstats.get("diffs.other-property", 0) + 1
                continue
            fr.diffs.append(line[5:])
        elif line.startswith("checked "):
            fr.checked = int(line.split()[1])
        elif line.startswith("mstat "):
            _, k, v = line.split()
            fr.mstats[k] = int(v)
    if r.returncode not in (0, 1):
        fr.diffs.append("line=0 kind=driver-failed rc=%d %s" % (r.returncode, r.stdout[-500:].replace("\n", " | ")))
    # harness-side distribution + a few sample cases
    with open(tpath, errors="replace") as f:
        cur = None
        h = None
        nbody = 0
        for line in f:
            if line.startswith("case "):
                if h is not None and nbody > 0:
                    fr.distinct.add(h.hexdigest())
                h = hashlib.md5(); nbody = 0
            elif line.startswith("endcase"):
                if h is not None and nbody > 0:
                    fr.distinct.add(h.hexdigest())
                h = None
            elif h is not None and nbody < 60:
                h.update(line.encode()); nbody += 1
            if line.startswith("stat "):
                parts = line.split()
                if len(parts) == 3:
                    fr.stats[parts[1]] = int(parts[2])
            elif line.startswith("case "):
                fr.cases += 1
                if len(fr.samples) < 3:
                    cur = [line.strip()]
                    fr.samples.append(cur)
                else:
                    cur = None
            elif cur is not None and len(cur) < 14:
                cur.append(line.strip()[:160])
    return fr


CONFIG_ARGS = ("ct", "forcepol")


def norm_diff(d):
    # the same disagreement in two runs of one workload: same case, kind and detail (transcript line numbers differ)
    return re.sub(r"\bline=\d+\s*", "", d).strip()


def case_of(diff):
    m = re.search(r"case=(\d+)", diff)
    return int(m.group(1)) if m else None


def minimise(pid, fr, tier, seed, workdir):
    """Try to reproduce the first diff of `fr` on a single case (replays exactly
    because every case derives its randomness from (seed, case))."""
    d = fr.diffs[0]
    c = case_of(d)
    if c is None:
        return None
    try:
        one = run_family(fr.spec, tier, seed, workdir, extra={"case": c}, keep_name="%s.case%d" % (fr.family, c))
    except Exception as e:  # noqa
        return None
    if one.diffs:
        return one
    # needs history: replay cases 0..c
    try:
        hist = run_family(fr.spec, tier, seed, workdir, extra={"to": c}, keep_name="%s.to%d" % (fr.family, c))
    except Exception as e:  # noqa
        return None
    return hist if hist.diffs else None


def write_replay(pid, seed, tier, name, payload, transcript=None):
    os.makedirs(REPLAY, exist_ok=True)
    path = os.path.join(REPLAY, "%s-%s-seed%d.json" % (pid, name, seed))
    if transcript and os.path.exists(transcript):
        tdst = path[:-5] + ".transcript"
        # keep replays small: cap at 2 MB
        with open(transcript, errors="replace") as f:
            data = f.read(2_000_000)
        with open(tdst, "w") as f:
            f.write(data)
        payload["transcript"] = tdst
    payload.update({"property": pid, "seed": seed, "tier": tier})
    with open(path, "w") as f:
        json.dump(payload, f, indent=1)
    return path


# ----------------------------------------------------------------------------- main
def main(argv):
    ap = argparse.ArgumentParser()
    ap.add_argument("pid")
    ap.add_argument("--tier", default=os.environ.get("VERIF_TIER", "quick"))
    ap.add_argument("--seed", type=int, default=int(os.environ.get("VERIF_SEED", "1")))
    ap.add_argument("--replay", default=None)
    a = ap.parse_args(argv)
    pid, tier, seed = a.pid, a.tier, a.seed
    if pid not in P.PROPS:
        log("unknown property", pid)
        return 2
    if a.replay:
        return do_replay(pid, a.replay)
    cfg = P.PROPS[pid]
    t0 = time.time()
    workdir = tempfile.mkdtemp(prefix="chk_%s_" % pid, dir=os.path.join(VERIF, ".cache") if os.path.isdir(os.path.join(VERIF, ".cache")) else None)
    violations = []      # (replay path, suffix)
    known_lines = []
    obligations = []     # (name, ok, detail)
    try:
        # ---- 1. build (also the first obligation: the tree must compile with hooks on)
        flavors = sorted({f.get("flavor", "plain") for f in cfg[tier]})
        try:
            for fl in flavors:
                B.build(fl)
            obligations.append(("build:" + ",".join(flavors), True, ""))
        except B.BuildError as e:
            obligations.append(("build", False, str(e)[-3000:]))
            path = write_replay(pid, seed, tier, "build", {"kind": "build-failed", "detail": str(e)[-6000:],
                                "broken": "the harness or the library no longer compiles against /repo"})
            print("VIOLATION property=%s replay=%s no-failing-input-found" % (pid, path))
            finish(pid, tier, seed, cfg, obligations, [], t0, 1, [])
            return 1

        # ---- 2. translate + 3. prove + audit
        proof_broken = []
        for name, ok, msg in run_translators():
            if name in cfg.get("gen", []):
                obligations.append(("translate:" + name, ok, msg if not ok else ""))
                if not ok:
                    proof_broken.append("translator %s failed: %s" % (name, msg[-1500:]))
        ok, out = lake_build()
        audit_imports = None
        if not ok:
            # The whole library no longer builds.  Scope the failure to THIS property: its proof obligations
            # are the modules that define its theorems (and what they import); a break elsewhere (another
            # property's proofs against a regenerated file, say) is not this property's business.
            failed = re.findall(r"^- (\S+)", out, flags=re.M)
            mods = sorted(theorem_modules(cfg["theorems"]))
            ok2, out2 = lake_build(mods) if mods else (False, "theorem_modules.json missing")
            if ok2:
                obligations.append(("lake-build", True, "library-wide build fails in %s; this property's modules (%d) build" % (", ".join(failed)[:200], len(mods))))
                audit_imports = mods
            else:
                failed2 = re.findall(r"^- (\S+)", out2, flags=re.M)
                proof_broken.append("lake build failed for %s\n%s" % (", ".join(failed2 or failed), out2[-3000:]))
                obligations.append(("lake-build", False, ", ".join(failed2 or failed)))
            # the driver imports the whole model; if it cannot be rebuilt the previously built binary is used
            okd, _ = lake_build(["drv"])
            obligations.append(("driver-build", okd or os.path.exists(DRV), "" if okd else "rebuilt failed: previously built driver binary used"))
        else:
            obligations.append(("lake-build", True, ""))
        if not proof_broken or ok:
            aud = leanaudit.audit(cfg["theorems"], LEAN, imports=audit_imports)
            for thm, tok, detail in aud:
                obligations.append(("theorem:" + thm, tok, detail))
                if not tok:
                    proof_broken.append("theorem %s: %s" % (thm, detail))
        else:
            for thm in cfg["theorems"]:
                obligations.append(("theorem:" + thm, False, "not checked: build failed"))
        g = leanaudit.grep_forbidden(LEAN)
        obligations.append(("grep-forbidden", not g, "; ".join(g)[:1000]))
        if g:
            proof_broken.append("forbidden construct in Lean sources: " + "; ".join(g)[:1000])
        if tier == "thorough" and not proof_broken:
            for mod in cfg.get("leanchecker", []):
                r = sh(["lake", "env", "leanchecker", mod], cwd=LEAN)
                obligations.append(("leanchecker:" + mod, r.returncode == 0, r.stdout[-500:] if r.returncode else ""))
                if r.returncode:
                    proof_broken.append("leanchecker rejected " + mod)

        # ---- 4. correspondence
        known = load_known()
        runs = []
        if not os.path.exists(DRV):
            proof_broken.append("driver executable missing")
        else:
            # corpus of past minimal disagreements first
            for spec in cfg.get("corpus", []):
                runs.append(run_family(spec, tier, seed, workdir))
            for spec in cfg[tier]:
                fr = run_family(spec, tier, seed, workdir)
                runs.append(fr)
        any_new = False
        for fr in runs:
            new_diffs = []
            for d in fr.diffs:
                kf = next((k for k in known if known_match(k, pid, fr.family, d)), None)
                if kf:
                    line = "KNOWN-FINDING: property=%s %s" % (pid, kf["what"])
                    if line not in known_lines:
                        known_lines.append(line)
                else:
                    new_diffs.append(d)
            # A family of ANOTHER property re-run under a non-default configuration (--ct / --forcepol) tests
            # that the configuration is transparent: a disagreement that the same workload also shows under the
            # default configuration is that other property's business, not this one's.
            cfgkeys = [k for k in (fr.spec.get("args") or {}) if k in CONFIG_ARGS]
            if new_diffs and cfgkeys:
                base = dict(fr.spec); base["args"] = {k: v for k, v in fr.spec["args"].items() if k not in CONFIG_ARGS}
                try:
                    br = run_family(base, tier, seed, workdir, keep_name=fr.family + ".defaultcfg")
                    bset = {norm_diff(d) for d in br.diffs}
                    kept = [d for d in new_diffs if norm_diff(d) not in bset]
                    if len(kept) != len(new_diffs):
                        obligations.append(("config-differential:%s" % fr.family, True,
                                            "%d disagreement(s) also occur under the default configuration (not attributable to %s): %s"
                                            % (len(new_diffs) - len(kept), "/".join(cfgkeys), "; ".join(d for d in new_diffs if d not in kept)[:300])))
                    new_diffs = kept
                except Exception as e:  # noqa
                    pass
            obligations.append(("correspondence:%s" % fr.family, not new_diffs,
                                "; ".join(new_diffs[:3])[:600]))
            if not new_diffs:
                continue
            any_new = True
            fr.diffs = new_diffs
            oracle = P.ORACLE_KINDS.get(fr.family, P.ORACLE_KINDS["*"])
            pats = [re.compile(x) for x in getattr(P, "ORACLE_PATTERNS", {}).get(fr.family, []) + getattr(P, "ORACLE_PATTERNS", {}).get("*", [])]
            def is_or(d):
                m = re.search(r"kind=(\S+)", d)
                return (m is not None and m.group(1) in oracle) or any(px.search(d) for px in pats)
            odiffs = [d for d in new_diffs if is_or(d)]
            is_oracle = bool(odiffs)
            if odiffs:
                # minimise on the first direct property failure, and list those first
                fr.diffs = odiffs + [d for d in new_diffs if d not in odiffs]
            mini = minimise(pid, fr, tier, seed, workdir)
            src = mini or fr
            payload = {"kind": "property-fails-on-implementation" if is_oracle else "correspondence-broken",
                       "family": fr.family, "command": src.cmd, "diffs": src.diffs[:20],
                       "how_to_replay": "./check %s --replay <this file>" % pid,
                       "minimised_to_single_case": bool(mini and "--case" in mini.cmd),
                       "stderr": (src.crash or "")[-3000:]}
            tag = fr.family
            if fr.spec.get("args"):
                tag += "-" + hashlib.md5(json.dumps(fr.spec["args"], sort_keys=True).encode()).hexdigest()[:6]
            path = write_replay(pid, seed, tier, tag, payload, src.transcript)
            violations.append((path, "" if is_oracle else " no-failing-input-found"))
        if proof_broken and not any(v[1] == "" for v in violations):
            # a proof obligation broke and the search found no failing input
            path = write_replay(pid, seed, tier, "proof", {"kind": "proof-obligation-broken",
                                "broken": proof_broken, "searched": [fr.cmd for fr in runs],
                                "note": "no concrete failing input found by this run's search"})
            violations.append((path, " no-failing-input-found"))
        elif proof_broken:
            # attach the broken obligations to the concrete replay
            for path, suf in violations:
                if suf == "":
                    try:
                        j = json.load(open(path)); j["broken_proof_obligations"] = proof_broken
                        json.dump(j, open(path, "w"), indent=1)
                    except Exception:
                        pass
        for l in known_lines:
            print(l)
        for path, suf in violations:
            print("VIOLATION property=%s replay=%s%s" % (pid, path, suf))
        rc = 1 if violations else 0
        finish(pid, tier, seed, cfg, obligations, runs, t0, rc, known_lines)
        if rc == 0:
            print("OK property=%s tier=%s seed=%d obligations=%d wall=%.1fs" % (pid, tier, seed, len(obligations), time.time() - t0))
        return rc
    finally:
        shutil.rmtree(workdir, ignore_errors=True)


def finish(pid, tier, seed, cfg, obligations, runs, t0, rc, known_lines):
    os.makedirs(EVID, exist_ok=True)
    discharged = sum(1 for o in obligations if o[1])
    dist = {}
    mdist = {}
    samples = []
    evaluations = 0
    distinct = 0
    checked = 0
    cmds = []
    for fr in runs:
        for k, v in fr.stats.items():
            dist["%s.%s" % (fr.family, k)] = v
        for k, v in fr.mstats.items():
            mdist["%s.%s" % (fr.family, k)] = v
        for s in fr.samples[:2]:
            samples.append({"family": fr.family, "lines": s})
        evaluations += fr.cases
        distinct += len(fr.distinct)
        checked += fr.checked
        cmds.append(fr.cmd)
    thms = [o[0][8:] for o in obligations if o[0].startswith("theorem:")]
    samples = [{"theorems": thms[:12]}] + samples
    ev = {
        "property_id": pid,
        "tier": tier,
        "seed": seed,
        "level": "proof",
        "coverage": {
            "obligations": len(obligations),
            "discharged": discharged,
            "checker_cmd": "cd /verif/lean && lake build && lake env lean <#print axioms file>; " + " ; ".join(c for c in cmds if c)[:1500],
            "trusted_base": [
                "Lean 4.33.0 kernel (thorough tier: leanchecker on the property modules)",
                "axioms allowed in property theorems: propext, Classical.choice, Quot.sound (audited by #print axioms on every run)",
                "correspondence machinery: C++ harness /verif/harness, text protocol, Lean driver glue (Driver/*.lean is unverified; the checkers and specs it calls are the verified/modelled definitions)",
                "g++ 12, libstdc++, glibc, GMP, IEEE arithmetic",
            ] + cfg.get("trusted", []),
            "obligation_list": [{"name": o[0], "ok": o[1], "detail": o[2][:300]} for o in obligations],
            "evaluations": evaluations,
            "observations_checked_by_model": checked,
            "distinct_nontrivial": distinct,
            "rule": cfg.get("rule", "cases are generated from (seed, case index); a case counts as distinct and non-trivial when its transcript body (first 60 records: domain, forests, inputs, observations) is non-empty and its hash differs from every other case of the run; see distribution_harness for what the generator exercised"),
            "samples": samples,
            "distribution_harness": dist,
            "distribution_model": mdist,
            "partial": cfg.get("partial", []),
            "known_findings_reported": known_lines,
            "exhaustive": False,
        },
        "assumptions": cfg.get("assumptions", []) + [
            "the theorems are about the Lean model; the model is tied to the code by the correspondence runs listed in obligation_list, which sample inputs",
        ],
        "wall_s": round(time.time() - t0, 2),
        "violations": 0 if rc == 0 else 1,
    }
    with open(os.path.join(EVID, pid + ".json"), "w") as f:
        json.dump(ev, f, indent=1)


def do_replay(pid, path):
    j = json.load(open(path))
    cmd = j.get("command")
    if not cmd:
        print(json.dumps(j, indent=1))
        return 1
    # rebuild for the current tree, then rerun the same harness command
    parts = cmd.split()
    flavor = "asan" if "/asan-" in parts[0] else "plain"
    bdir = B.build(flavor)
    parts[0] = os.path.join(bdir, "mdh")
    env = dict(os.environ); env["ASAN_OPTIONS"] = "detect_leaks=0"
    with tempfile.TemporaryDirectory(dir=os.path.join(VERIF, ".cache")) as td:
        tp = os.path.join(td, "replay.transcript")
        with open(tp, "w") as out:
            p = subprocess.run(parts, stdout=out, stderr=subprocess.PIPE, text=True, env=env)
        if p.returncode:
            with open(tp, "a") as out:
                out.write("\ncrash exit=%d\n" % p.returncode)
            sys.stderr.write(p.stderr[-3000:])
        r = subprocess.run([DRV, tp], stdout=subprocess.PIPE, text=True)
        print(r.stdout)
        if "DIFF" in r.stdout:
            print("VIOLATION property=%s replay=%s" % (pid, path))
            return 1
    return 0
