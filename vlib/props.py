"""Per-property configuration: which Lean theorems decide it, which harness
families tie the model to the code, and how deep each tier goes."""

# Axioms a property theorem may depend on.
ALLOWED_AXIOMS = {"propext", "Classical.choice", "Quot.sound"}

# Theorems of the shared core, used by most properties.
CORE = [
    "Meddly.DD.canon",
    "Meddly.Dump.check_sound",
    "Meddly.Dump.unfold_inj",
    "Meddly.Dump.evalFast_eq_evalChild",
]
APPLY = [
    "Meddly.DD.apply2_eval_top",
    "Meddly.DD.apply2_red_top",
    "Meddly.DD.apply2_unique",
    "Meddly.DD.apply1_eval_top",
    "Meddly.DD.apply1_unique",
]

# Theorems about the GENERATED level arithmetic (Gen/Levels.lean <- forest_levels.h, defines.h): the position
# numbering of the Lean model is the library's level order.
LEVELS = ["Meddly.Levels." + t for t in [
    "defined_of_bounded", "results_in_range", "pos_inj", "posOf_inj", "pos_levelOfPos", "levelOfPos_pos",
    "MXD_downLevel_pos", "MXD_downLevel_posOf", "MXD_downLevel_bottom", "MXD_upLevel_pos", "MXD_upLevel_posOf",
    "MXD_up_down", "MXD_topLevel_pos", "MXD_topLevel_posOf", "isLevelAbove_iff_pos", "isLevelAbove_iff_posOf",
    "isLevelAbove_order", "MXD_topUnprimed_eq", "MXD_primed_unprimed_pos", "MDD_levels_pos", "MXD_MDD_agree_unprimed"]]
# Theorems tying the hand-written Core/HashStream.lean to the GENERATED Gen/HashStream.lean (<- hash_stream.h)
HASHGEN = ["Meddly.HashStreamGen." + t for t in [
    "rot_gen", "mix_gen", "final_mix_gen", "start_gen", "start0_gen", "finish_gen", "push_gen", "push2_gen", "push3_gen",
    "genRun_sim", "model_is_generated", "gen_total", "gen_push2_eq", "gen_push3_eq", "gen_hash_of_sequence",
    "gen_hashSeq", "gen_hash_agree"]]

# Theorems tying the hand-written State/CounterArray.lean to the GENERATED Gen/CounterArray.lean (<- arrays.h, arrays.cc)
CAGEN = ["Meddly.CounterArrayGen." + t for t in [
    "expand8to16_ok", "expand16to32_ok", "shrink16to8_ok", "shrink32to16_ok", "shrink32to8_ok",
    "init_gen", "entry_bits_gen", "get_gen", "swap_gen", "increment_gen", "decrement_gen",
    "isZeroBeforeIncrement_gen", "isPositiveAfterDecrement_gen", "expand_gen", "shrink_gen",
    "gen_step", "fitN_step", "gen_run_sim", "gen_counter_refines", "gen_width_inv", "gen_tally_exact",
    "gen_model_agrees", "gen_junk_irrelevant"]]

# Theorems tying the hand-written State/NodeLife.lean to the GENERATED Gen/NodeHeaders.lean (<- node_headers.h, node_headers.cc)
NHGEN = ["Meddly.NodeHeadersGen." + t for t in [
    "isDeleted_hdr", "isActive_hdr", "deactivate_hdr", "counts_hdr", "linkNode_hdr", "cacheNode_hdr", "unlinkNode_hdr",
    "uncacheNode_hdr", "terminal_noop", "cls_toGen", "link_sim", "cache_sim", "unlink_sim", "step_uncache", "uncache_sim",
    "gen_step_total", "gen_deleted_iff", "gen_recycled_iff", "gen_never_recycled_while_cached", "gen_inv_step",
    "gen_revive_iff", "ginv_toGen", "ofGen_toGen", "callG_unlink", "callG_uncache", "callG_link", "callG_cache",
    "drainG_eq", "stepG_eq", "lvlpos_step", "runG_eq", "gen_machine", "countsFit_of_table"]] + \
    ["Meddly.NodeHeadersCounter.counter_spec"]

# family run: (family, flavor, extra args)
def fam(name, flavor="plain", **kw):
    # keys starting with "_" are for the runner, not the harness: _only=<regex> keeps only the disagreements of
    # another property's family that are THIS property's business (matched against the DIFF line)
    spec = {"family": name, "flavor": flavor, "args": {k: v for k, v in kw.items() if not k.startswith("_")}}
    for k, v in kw.items():
        if k.startswith("_"):
            spec[k[1:]] = v
    return spec


# family gen validates four translators: level arithmetic + hash stream (C01/C02), counter_array and node_headers (C06:
# kinds gen-gc*, gen-nh*)
NOT_GC = r"kind=(?!gen-gc|gen-nh)"
ONLY_GC = r"kind=(gen-gc|gen-nh|crash|truncated|unknown)"

# disagreement kinds that are violations of C02 (the stored structure itself is malformed)
STRUCT_KINDS = r"kind=(canonical|canonicity|node-count|crash|views-agree\S*|views-hash-alike\S*|unique-table-finds-node\S*)"


PROPS = {
    "C04": {
        "title": "Set algebra is pointwise",
        "theorems": CORE + APPLY + [
            "Meddly.DD.union_eval", "Meddly.DD.inter_eval", "Meddly.DD.diff_eval", "Meddly.DD.compl_eval",
            "Meddly.DD.union_red",
            "Meddly.DD.unionS_eq_apply2", "Meddly.DD.interS_eq_apply2", "Meddly.DD.diffS_eq_apply2", "Meddly.DD.complS_eq_apply1",
            "Meddly.DD.unionShortcut_sound", "Meddly.DD.interShortcut_sound", "Meddly.DD.diffShortcut_sound",
            "Meddly.DD.unionFull_eq_apply2", "Meddly.DD.interFull_eq_apply2", "Meddly.DD.diffFull_eq_apply2",
            "Meddly.DD.applySkip_eq_apply2",
        ],
        # third run: SCREENING (DESIGN 8c) - 60 000 (thorough 200 000) cases searched by a harness-side pointwise test + the
        # harness-side recount of every dump; suspicious cases and every 400th are written out for the acceptor
        "quick": [fam("setops"), fam("setops", screen=400, cases=60000)],
        "thorough": [fam("setops", "asan"), fam("setops", screen=400, cases=200000)],
        # minimised past failures (both repaired by fix: commits), replayed first on every run
        "corpus": [fam("setops", seed=1, case=9), fam("setops", seed=2, case=19)],
        "design_ref": "DESIGN.md §5 C04",
        "partial": [],
        "level_text": "Lean theorems union_eval/inter_eval/diff_eval/compl_eval: the model's apply (position-wise recursion + createReducedNode) denotes the pointwise Boolean operator for every domain, every triple of reduction rules and every operand; apply2_unique + DD.canon: any reduced result with that denotation is that tree. Tie: differential runs of the real UNION/INTERSECTION/DIFFERENCE/COMPLEMENT over random domains, all forest triples and aliasing patterns, cold and warm caches, against the pointwise oracle, operands re-read afterwards.",
        "level_note": "Theorems are about the Lean tree model; the tie to /repo is the sampled correspondence run (harness setops + Lean driver: table oracle AND structural equality of the real result with the model's apply2 on the dumped operands). The terminal shortcuts and level-skipping patterns of union.cc / intersection.cc / difference.cc / complement.cc are transcribed case by case (Ops/Shortcuts.lean) and each proved to return exactly apply2's tree; the transcription is by hand. Compute-table transparency is C07's subject. CROSS is covered by the table oracle only.",
        "technique": "Lean 4 proof (induction on positions) + differential correspondence with pointwise oracle",
    },
    "C19": {
        "title": "Values survive encoding into terminals and edge values",
        "theorems": [
            "Meddly.C19.int_roundtrip", "Meddly.C19.int_overflow", "Meddly.C19.int_inj", "Meddly.C19.int_zero_iff",
            "Meddly.C19.enc_nonzero_negative_int", "Meddly.C19.int_handle_roundtrip",
            "Meddly.C19.real_roundtrip", "Meddly.C19.real_roundtrip_zero", "Meddly.C19.real_inj", "Meddly.C19.real_zero_iff",
            "Meddly.C19.enc_nonzero_negative_real",
            "Meddly.C19.bool_roundtrip", "Meddly.C19.bool_zero_iff", "Meddly.C19.bool_decode_exact",
            "Meddly.C19.evplus_inf_preserved", "Meddly.C19.evplus_fin_preserved", "Meddly.C19.evtimes_preserved",
        ],
        "gen": ["Gen.Terminal"],
        "quick": [fam("terminal")],
        "thorough": [fam("terminal", "asan")],
        "leanchecker": ["MeddlyModel.Props.C19"],
        "level_text": "The encode/decode functions of terminal.h are REGENERATED into Lean (BitVec 64/32, C conversions taken from clang's typed AST) on every run and the round-trip / injectivity / overflow / unique-zero theorems are re-proved against them for all 2^64 longs and all 2^32 float bit patterns (kernel-only proofs, no bv_decide). A change of terminal.h that breaks the property breaks a proof; the differential run (1.3M records quick) validates the translator and the hand-written EV+/EV* edge model against the real terminal class and real forests.",
        "level_note": "Trusted: the translator (validated differentially on every run), clang's AST, float<->double conversions in the untranslated wrappers (setFromValue/getReal), the hand model of EV+ infinity / EV* zero (tied only differentially). MT real terminals below a node are rounded to 1e-5 by createReducedNode (documented terminal precision): modelled in the acceptor, outside the handle-encoding theorems.",
        "technique": "translator (clang AST -> Lean BitVec) + Lean 4 proof over all bit patterns + differential validation",
        "partial": ["double->float rounding at API entry is hardware behaviour (trusted)", "MT-real terminal precision rounding (1e-5) modelled in the acceptor only"],
    },
    "C18": {
        "title": "Memory managers never hand out overlapping or corrupted chunks",
        "theorems": ["Meddly.MemMan." + t for t in [
            "alloc_no_overlap", "alloc_size_ok", "live_stable", "reuse_only_after_recycle",
            "tiling_inv", "tiling_refines_alloc", "tiling_run_refines_alloc",
            "freelist_refines_alloc", "freelist_run_refines_alloc", "live_contents_untouched"]],
        "quick": [fam("memman")],
        "thorough": [fam("memman", "asan")],
        "leanchecker": ["MeddlyModel.State.MemMan"],
        "level_text": "Specification automaton Alloc (live chunks; request legal iff got>=want and the extent is disjoint from every live chunk; recycle legal iff exactly that chunk is live) with theorems for EVERY accepted trace: no overlap, size ok, a chunk stays live and unmoved until recycled, memory is handed out again only after a recycle, live contents untouched. Refinement models Tiling (orig grid / array+grid / heap: arena tiled by live chunks and holes, any sufficient hole may be taken, coalescing) and FreeList, each proved to preserve its invariant and to refine Alloc. Tie: trace validation - the harness drives all five real managers (granularity 4 and 8) with request/recycle histories, sentinels in every slot re-read after every step; the Lean acceptor validates every handle against Alloc.legal / Tiling.step / FreeList.step and every arena scan against Tiling.inv.",
        "level_note": "The hole-index structures' choice of hole is nondeterminism of the model (not predicted, validated). Out-of-bounds writes by a manager are exhibited by the sentinels and by ASan (thorough tier), not by a theorem. Out-of-memory paths and granularity 2 are not exercised.",
        "technique": "Lean 4 proof (invariants by induction over traces, refinement) + trace validation against the real managers",
        "partial": ["index structures (grid/heap) not modelled: their choice is the nondeterminism", "OOM / max_handle failure paths not exercised"],
    },
    "C07": {
        "title": "Compute tables are transparent",
        "theorems": ["Meddly.CT." + t for t in [
            "ct_trace_sound", "cc_exact", "keys_distinct", "removeAll_empty", "removeStales_clean",
            "no_reuse_while_cached", "lossy_ok", "tracking_sound", "find_accepted"]],
        # other families' workloads (with their own specification oracles) re-run under non-default table
        # configurations: --ct style,stale,maxsize
        "quick": [fam("ctable"), fam("ctstress"), fam("arith", ct="1,0,1024", cases=300), fam("reach", ct="3,2,0", cases=600, allow="F4,F7,F8,F9,F10"),
                  fam("image", ct="2,1,1024", cases=800), fam("copy", ct="1,2,0", cases=300), fam("oplife", ct="3,1,1024", cases=250)],
        # (case counts bounded: under the sanitizer the full thorough workloads of five other families took 48 minutes)
        "thorough": [fam("ctable", "asan"), fam("ctstress", "asan"), fam("arith", "asan", ct="1,0,1024", cases=1500), fam("arith", "asan", ct="3,2,0", cases=1500),
                     fam("reach", "asan", ct="3,2,0", allow="F4,F7,F8,F9,F10", cases=5000), fam("reach", "asan", ct="1,1,1024", allow="F4,F7,F8,F9,F10", cases=5000),
                     fam("image", "asan", ct="2,1,1024", cases=8000), fam("copy", "asan", ct="1,2,0", cases=1500), fam("setops", "asan", ct="3,0,1024", cases=2000),
                     fam("oplife", "asan", ct="1,1,1024", cases=1500)],
        "leanchecker": ["MeddlyModel.State.ComputeTable"],
        "level_text": "Specification automaton CT (lossy map: any entry may disappear at any step; a hit is accepted only if it is the most recent add for that key and none of its nodes or its entry type was dead at any time since). Theorems for every accepted trace: ct_trace_sound, cc_exact (cache count = occurrences in live entries), no_reuse_while_cached, lossy_ok (a client that recomputes on a miss observes the same results under EVERY loss schedule as with an empty table). Tie: trace validation of findCT/addCT/removeStales/removeAll against real nodes that are created, released and re-created (handle reuse), under all 4 styles x 3 stale policies x maxSize in {1,1024,2048,default}; plus an end-to-end script of real operations executed under several configurations whose result tables must be identical and equal to the pointwise oracle; plus family ctstress: under each of the four table styles thousands of real operations with key shapes of 2 to 5 items (EV+ MULTIPLY/PLUS/MIN/MAX, MT arithmetic and comparisons) over pools of functions sharing key prefixes, warm tables and recycled handles, every result compared with the scalar oracle.",
        "level_note": "NodeLifeOK (a dead node with cache count > 0 stays dead, searched keys mention no dead node) is a hypothesis owed by C06's NodeLife model and is monitored in the trace, not proved here. In unchained styles silent evictions make only an upper bound of the cache count checkable from the trace; exactness there rests on cc = countAllNodeEntries of the real table. lossy_ok is for a flat client, not a recursive apply. Hash quality/performance not modelled.",
        "technique": "Lean 4 proof (trace acceptance + invariants by induction) + trace validation + cross-configuration differential run",
        "partial": ["mark-and-sweep forests (no cache counts) not covered", "recursive apply modelled as flat client in lossy_ok"],
    },
    "C01": {
        "title": "Canonicity",
        "theorems": CORE + ["Meddly.DD.canon_gen", "Meddly.DD.zero_unique", "Meddly.Dump.unfold_fuel",
                            "Meddly.Dump.check_sound_node", "Meddly.DD.apply2_unique", "Meddly.DD.apply1_unique",
                            "Meddly.DD.apply2_red_top", "Meddly.DD.mkNode_red",
                            "Meddly.EDD.canon", "Meddly.EDD.edge_value_is_min", "Meddly.EDD.mkNodeEV_eval", "Meddly.EDD.mkNodeEV_red",
                            "Meddly.EDump.check_sound", "Meddly.EDump.unfold_inj", "Meddly.EDump.check_canon", "Meddly.EDump.evalFast_eq",
                            "Meddly.HashStream.push2_eq", "Meddly.HashStream.hash_of_sequence", "Meddly.HashStream.hash_agree",
                            "Meddly.UniqueTable.ut_inv", "Meddly.UniqueTable.ut_find_spec", "Meddly.UniqueTable.ut_refines_set",
                            "Meddly.UniqueTable.no_duplicate_contents", "Meddly.UniqueTable.no_duplicate_contents_real",
                            "Meddly.UniqueTable.dump_distinctOK"] + LEVELS + HASHGEN,
        # regenerated from forest_levels.h / defines.h / hash_stream.h on every run; a failed translator is a broken obligation
        "gen": ["Gen.Levels", "Gen.HashStream"],
        # family gen also replays counter_array histories (kind=gen-gc*): those belong to C06
        "quick": [fam("canon"), fam("gen", _only=NOT_GC)],
        "thorough": [fam("canon", "asan"), fam("gen", "asan", _only=NOT_GC)],
        "leanchecker": ["MeddlyModel.Core.Canon", "MeddlyModel.Core.Dump", "MeddlyModel.Props.Levels", "MeddlyModel.Props.HashStreamGen"],
        "level_text": "DD.canon: two reduced trees (fully / quasi / identity rule, any domain with sizes >= 2, any terminal type) denote the same function iff they are the same tree; Dump.check_sound + Dump.unfold_inj: a dump of the real node store accepted by the verified checker unfolds injectively into reduced trees, so in THAT real state every two edges are equal iff they denote the same function (all assignments, not the sampled ones); mkNode_red/apply*_red: the model's createReducedNode and apply keep the reduced form. Tie: every quiescent state of random histories is dumped and certified; the same function is built along 5 different paths (minterm orders, op chains, copies through other forests, after GC and handle reuse) and the observed == partition must equal the partition by evaluation table.",
        "level_note": "Proved for multi-terminal forests (DD.canon) and for EV+ forests (EDD.canon: normalised edge values, value of a reduced edge = minimum of its denotation; EDump.check_sound for dumps); EV* (real, multiplicative) forests are covered by the structural recount, the == partition and evaluation only. Real-valued comparisons in the library are approximate (1e-6 relative): generators stay on an exactness-safe grid; rounding coincidences are not modelled. The unique table's hashing is observed only through its effect (duplicates in the dump). Translator tie: the level arithmetic (MDD_levels / MXD_levels / isLevelAbove, forest_levels.h + defines.h) and the hash stream primitives (hash_stream.h) are regenerated into Lean on every run; Props/Levels.lean proves that the model's position numbering (unprimed k = 2k, primed -k = 2k-1) is exactly the library's level order (downLevel = position-1, topLevel = larger position, isLevelAbove = position >) and Props/HashStreamGen.lean that the hand-written hash-stream model equals the generated functions, so hash_agree / push2_eq / hash_of_sequence are statements about the header's current text; the differential family gen validates both translators against the real inline functions.",
        "technique": "Lean 4 proof (canonical form uniqueness by induction on positions) + verified certificate checker run on dumps of the real forest + differential build-path comparison",
        "partial": ["EV* normal form not proved (floating point; checked differentially)", "UniqueTable is a hand-written model of unique_table.cc, and WHICH stream calls computeHash / hashNode issue is hand-transcribed (tied at run time by the harness: both views and the packed node hash alike and the unique table finds every stored node); the stream primitives themselves (rot, mix, final_mix, start, push x3, finish) and the level arithmetic (MDD_levels, MXD_levels, isLevelAbove) are regenerated from hash_stream.h / forest_levels.h / defines.h on every run and the hand-written HashStream model and the position numbering are proved equal to them (Props/HashStreamGen.lean, Props/Levels.lean; translators validated by family gen)", "EV+ edge arithmetic over unbounded Int (no 64-bit wrap)"],
    },
    "C02": {
        "title": "Every stored node obeys the reduction rule",
        "theorems": CORE + ["Meddly.Dump.check_sound_node", "Meddly.Dump.red_of_node", "Meddly.DD.Red_WFTree",
                            "Meddly.EDump.check_sound", "Meddly.EDump.check_sound_node", "Meddly.EDump.unfold_inj",
                            "Meddly.Codec.C02_views_agree", "Meddly.Codec.C02_hash_identical", "Meddly.Codec.C02_duplicates",
                            "Meddly.Codec.isSingleton_truth", "Meddly.Codec.unpack_pack_full", "Meddly.Codec.unpack_pack_sparse",
                            "Meddly.HashStream.hash_agree"] + LEVELS + HASHGEN,
        "gen": ["Gen.Levels", "Gen.HashStream"],
        # stored nodes must obey the rule in every HISTORY: also after variable reordering (levels then hold variables of
        # other sizes than their own number suggests) - the structural certificates of C13's workload count here
        "quick": [fam("canon"), fam("setops"), fam("oplife", _only=STRUCT_KINDS), fam("reorder", _only=STRUCT_KINDS)],
        "thorough": [fam("canon", "asan"), fam("setops", "asan"), fam("oplife", "asan", _only=STRUCT_KINDS),
                     fam("reorder", _only=STRUCT_KINDS, cases=3000)],
        "leanchecker": ["MeddlyModel.Core.Dump"],
        "level_text": "The executable certificate checker Dump.check (no duplicate content, children strictly below and live, node-local reduction conditions, per-edge skipping conditions, root conditions) is proved sound: an accepted dump unfolds to trees in reduced form (Dump.check_sound, check_sound_node). It is run on a dump of EVERY active node of the real forest (public node-inspection API, full view) at every quiescent point of generated histories, for every MT forest kind and random storage / memory-manager / deletion policies; reported node count must equal the number of live nodes.",
        "level_note": "The checker's completeness (never rejects a good state) is not proved; it is supported by clean runs at many seeds. Sparse/full view agreement and hashing are checked only through unique-table effects. EV+ forests use the verified EDump.check; EV* forests: structural recount + model evaluation only. Translator tie: the level arithmetic (MDD_levels / MXD_levels / isLevelAbove, forest_levels.h + defines.h) and the hash stream primitives (hash_stream.h) are regenerated into Lean on every run; Props/Levels.lean proves that the model's position numbering (unprimed k = 2k, primed -k = 2k-1) is exactly the library's level order (downLevel = position-1, topLevel = larger position, isLevelAbove = position >) and Props/HashStreamGen.lean that the hand-written hash-stream model equals the generated functions, so hash_agree / push2_eq / hash_of_sequence are statements about the header's current text; the differential family gen validates both translators against the real inline functions.",
        "technique": "verified certificate checker (Lean 4 soundness proof) applied to dumps of the real node store",
        "partial": ["full/sparse view agreement, hash equality and unique-table lookup are checked by the harness next to every dump (expect records), not by a Lean codec model", "EV* forests: no verified normal-form checker"],
    },
    "C12": {
        "title": "Results do not depend on storage, memory-manager or deletion policy",
        "theorems": CORE + APPLY + ["Meddly.MemMan.live_contents_untouched", "Meddly.MemMan.tiling_refines_alloc",
                                    "Meddly.MemMan.freelist_refines_alloc", "Meddly.MemMan.alloc_no_overlap",
                                    "Meddly.Codec.C12_codec_flag_indep", "Meddly.Codec.C12_pack_injective", "Meddly.Codec.pack_flag_indep",
                                    "Meddly.Codec.areDuplicates_spec", "Meddly.Codec.layout_choice",
                                    "Meddly.NodeLife.counts_exact", "Meddly.NodeLife.all_reclaimed", "Meddly.NodeLife.all_reclaimed_pessimistic"],
        # other families' workloads re-run under forced non-default policies: --forcepol storage,manager,deletion
        "quick": [fam("policy"), fam("arith", forcepol="1,2,2", cases=300), fam("image", forcepol="0,3,2", cases=800),
                  fam("setops", forcepol="1,0,0", cases=200), fam("canon", forcepol="0,2,2", cases=80),
                  fam("oplife", forcepol="1,3,2", cases=250), fam("oplife", forcepol="0,1,1", cases=250)],
        "thorough": [fam("policy", "asan"), fam("arith", "asan", forcepol="1,2,2", cases=3000), fam("arith", "asan", forcepol="0,3,0", cases=3000),
                     fam("oplife", "asan", forcepol="1,3,2"), fam("oplife", "asan", forcepol="0,0,1"),
                     fam("image", "asan", forcepol="0,3,2"), fam("setops", "asan", forcepol="1,0,0"), fam("canon", "asan", forcepol="0,2,2"),
                     fam("copy", "asan", forcepol="1,3,2"), fam("build", "asan", forcepol="1,0,2")],
        "level_text": "The model has no storage / memory-manager / deletion parameters at all: every result is the unique reduced tree of its denotation (DD.canon, apply*_unique), so whatever a policy does, an implementation that passes the canonical-form certificate and denotes the specified function has the same node count and structure. The policy-dependent components are each shown to refine a policy-free abstraction: every memory manager refines Alloc with live contents untouched (C18 theorems), node lifetime is policy-parametric (C06). Tie: one scripted allocation-heavy history (build / operate / release / cache clears) executed under the reference policy and 8 (quick) or all 36 (thorough) combinations of 3 storage flags x 4 managers x 3 deletion policies; every result table is compared with the specification oracle, per-edge node and edge counts with the reference configuration, and every configuration's forest passes the verified certificate checker and ends with zero nodes after release.",
        "level_note": "The packed node layout (truncated full / sparse, chosen by slot count) is modelled in Core/Codec.lean: decoding, lookups, the singleton and duplicate tests and the hash stream are proved independent of the storage flag (C12_codec_flag_indep); node lifetime is proved for both deletion policies (NodeLife). Memory use and timing are outside the property.",
        "technique": "Lean 4 proof (canonicity + allocator refinement) + cross-configuration differential run with verified certificates",
        "partial": ["Codec.lean is a hand-written model of storage/simple.cc (layout choice, four decode paths, duplicate test, singleton test, hash stream); tied at run time by the harness's view/hash/unique-table checks next to every dump, not by a translator"],
    },
    "C06": {
        "title": "Node lifetime: reference counts are exact, nothing dangles, nothing leaks",
        "theorems": ["Meddly.NodeLife." + t for t in [
            "counts_exact", "no_dangling", "held_alive", "content_stable", "reuse_only_free",
            "no_reuse_while_cached", "all_reclaimed", "all_reclaimed_pessimistic", "release_never_fails"]] +
            ["Meddly.CounterArray." + t for t in ["counter_refines", "width_inv", "tally_exact"]] + CAGEN + NHGEN +
            ["Meddly.Dump.check_sound", "Meddly.Dump.evalFast_eq_evalChild"] +
            # the recount certificate run on every dump (Recount.ok) and what an accepted dump implies
            ["Meddly.Recount." + t for t in ["top_unreferenced", "exists_unreferenced_of_no_roots", "count_zero_of_no_roots",
                                             "no_leak", "root_counted"]],
        # regenerated from arrays.h / arrays.cc and node_headers.h / node_headers.cc on every run; a failed translator is a
        # broken obligation
        "gen": ["Gen.CounterArray", "Gen.NodeHeaders"],
        # the screened oplife run (SCREENING, DESIGN 8c): 40 000 (thorough 150 000) histories searched by the harness's own
        # recount / leak / held-function tests, the suspicious ones and every 400th written out for the acceptor
        "quick": [fam("nodelife"), fam("canon"), fam("oplife"), fam("gen", _only=ONLY_GC), fam("oplife", screen=400, cases=40000)],
        "thorough": [fam("nodelife", "asan"), fam("canon", "asan"), fam("oplife", "asan"), fam("gen", "asan", _only=ONLY_GC),
                     fam("oplife", screen=400, cases=150000)],
        "leanchecker": ["MeddlyModel.State.NodeLife", "MeddlyModel.State.CounterArray", "MeddlyModel.Props.CounterArrayGen",
                        "MeddlyModel.Props.NodeHeadersGen"],
        "level_text": "NodeLife state machine (per handle free | active(level, in, cc, children) | deleted(cc); explicit multiset of outside references; pessimistic / optimistic policy) with theorems for EVERY legal op list: counts_exact (incoming count = number of references), no_dangling, held_alive, content_stable (a held node keeps level and children), reuse_only_free, no_reuse_while_cached, all_reclaimed (no references and no cache marks => every handle free; pessimistic: no references => no active handle). CounterArray refines a plain array of naturals through the 8/16/32-bit widening and narrowing. Tie: (D) a real forest driven at the primitive level (createReducedNode / link / unlink / cache / uncache / dd_edge set-copy-clear) with the state of EVERY handle compared with the model after every step, counts pushed across 255 and 65535, handle table grown and shrunk; the real counter_array class driven op by op; (S) in the canon family every dump is recounted (parents + registered roots = reported incoming count), every held edge is re-evaluated against its target after GC churn, and after releasing all edges and clearing caches the forest must report 0 nodes (Recount.no_leak: for a dump accepted by the recount with no user edge left, 'every node has a positive count' is contradictory unless the store is empty - the highest node is referenced by nobody - so the 0-nodes expectation follows from the certificate plus the reclamation rule; Recount.root_counted: a held edge's target has a positive count); family oplife does the same over random HISTORIES of real operations (set algebra, COMPLEMENT, COPY between rules, POST/PRE_IMAGE, integer and EV+ arithmetic, comparisons; edge copies, assignments, releases, cache clears) over up to four forests with random rules and policies on STRUCTURED operands (identity patterns, redundant and fixed variables - the shapes on which operations take early exits and chain builders): exact recount of every forest at random points, every result against the pointwise oracle, every held edge keeps its function, every forest empty at the end.",
        "level_note": "Translator tie for the counter widths: the whole class counter_array (constructor, get, swap, increment, decrement, isZeroBeforeIncrement, isPositiveAfterDecrement, entry_bits from arrays.h; expand, shrink, expand8to16, expand16to32, shrink16to8, shrink32to16, shrink32to8 from arrays.cc) is regenerated into Lean on every run (Gen/CounterArray.lean: three optional arrays, explicit wrap-around of unsigned char / short / int / size_t, malloc / realloc / memset / free and the copy loops, unspecified contents of fresh memory as a universally quantified parameter); Props/CounterArrayGen.lean proves every generated member equal to the hand-written CounterArray model on every in-contract call (for every content of fresh memory) and restates counter_refines / width_inv / tally_exact for the generated step function, so these are statements about the CURRENT text of arrays.h / arrays.cc; the differential family gen validates the translator against the real class (with a recording array_watcher). Translator tie for the lifetime decisions: linkNode, unlinkNode, cacheNode, uncacheNode, isDeleted, isActive, deactivate, getIncomingCount, getNodeCacheCount (node_headers.h) and lastUnlink, lastUncache (node_headers.cc) are regenerated into Lean on every run (Gen/NodeHeaders.lean: transition functions of the header of ONE handle - level entry, incoming count, cache count behind optional array pointers, the flag pessimistic - plus the ghost list of the calls that leave the class: parent.deleteNode(p), recycleNodeHandle(p), reviveNode(p)); Props/NodeHeadersGen.lean proves closed forms of every generated function, one simulation theorem per operation against NodeLife's per-handle transition (same counts, same class, same decision delete / recycle / keep), the reclamation rule for the generated code (gen_deleted_iff: the node is deleted exactly when in = 0 and (pessimistic or cc = 0); gen_recycled_iff: the handle is recycled exactly when in = 0 and cc = 0; gen_never_recycled_while_cached), and that NodeLife's whole machine with every per-handle transition computed by the generated code and the cascade driven by its deleteNode events IS NodeLife's machine on every legal history (stepG_eq, runG_eq, gen_machine), so counts_exact / no_dangling / all_reclaimed / all_reclaimed_pessimistic / reuse_only_free are statements about the CURRENT text of node_headers.h / .cc. Assumed, not translated: the effect of forest::deleteNode on the header (= deactivate; checked syntactically), recycleNodeHandle / getFreeNodeHandle (free lists, a_last: events only), the counter_array calls through their one-entry specification Counter.* (proved for the generated counter_array: counter_spec), the reference-counting configuration (REFCOUNTS_ON, useReferenceCounts). The differential family gen replays random in-contract link / unlink / cache / uncache histories on the real nodes of a real forest under both policies through the generated functions (kinds gen-nh*). Paired (every creation/destruction of a reference carries its link/unlink) is the legality of the model run; on the implementation it is checked by the recount certificate, not assumed. A C++-level use-after-free cannot be exhibited by the theorem: the thorough tier runs the ASan flavour. Which free handle is picked is nondeterminism of the model. 'never delete' is indistinguishable from optimistic in the code and is mapped so.",
        "technique": "Lean 4 proof (invariants by induction over op lists, refinement) + translator (clang AST of arrays.h / arrays.cc -> Lean) with equality proofs + translator (clang AST of node_headers.h / node_headers.cc -> Lean) with simulation proofs against NodeLife + step-by-step differential run on a real forest + recount certificate on dumps",
        "partial": ["mark-and-sweep forests not covered", "EV/quasi/identity forests only through the canon-family recount"],
    },
    "C17": {
        "title": "Library, domain and forest lifecycles are safe in any order",
        "theorems": ["Meddly.Lifecycle." + t for t in [
            "fid_fresh", "fid_fresh_unmentioned", "fid_never_reused", "fid_restart",
            "destroy_detaches_forest", "destroy_detaches_domain", "destroy_purges", "no_dangling",
            "others_untouched_forest", "others_untouched_domain", "att_frame",
            "detached_use_errors", "detached_use_errors_exact", "detached_evaluate_errors",
            "reinit_clean", "init_cleanup_outcomes", "init_cleanup_roundtrip", "uninitialized_errors"]],
        "quick": [fam("lifecycle")],
        "thorough": [fam("lifecycle", "asan")],
        "leanchecker": ["MeddlyModel.State.Lifecycle"],
        "level_text": "Deterministic Lifecycle state machine (running flag, domains, forests with FIDs, edges with attachment, iterators, built operations, live cache entries by the forests they mention) whose step function gives the outcome of every API call including the error codes. Theorems for every reachable state / every op list: FIDs strictly increase within one initialisation and are never reused, destroying a forest or domain detaches exactly the edges attached to the affected forests, purges every operation and cache entry mentioning them and leaves everything of other domains untouched, any use of a detached edge errors without changing state, cleanup returns to the initial state, init/cleanup can be repeated. Tie: random create/destroy histories (<=3 domains, <=6 forests, <=20 heap-allocated edges, iterators, cross-forest operations filling the compute table, all CT configurations, repeated init/cleanup) with the full observable state (attachment and table of every edge, registered edge counts, FIDs, surviving operations, stale entry types, live cache entries per forest set, error codes) compared with the model after EVERY step.",
        "level_note": "Function contents are not predicted by this model (tables must be unchanged unless the step writes the edge). Freed-memory accesses are visible only in the ASan flavour (thorough tier). The three genuine defects this family found - iterator on a detached edge, a rejected second initialize() clobbering the running library's table settings, use-after-free in removeAllComputeTableEntries after destroying a forest of a cross-forest operation - are repaired in /repo (fix: 94192d1, 03d5ed0, aaeaaa0); their forked probes run on every check (the third with M_PERTURB so that a plain build dies on the stale loop as the ASan build does) and the generator no longer avoids the step.",
        "technique": "Lean 4 proof (invariants by induction over op lists of a deterministic state machine) + step-by-step differential run",
        "partial": ["iterator surviving cleanup+initialize not exercised (not documented as legal)", "lazy physical removal of dead cache entries treated as destroyed"],
    },
    "C11": {
        "title": "Enumeration and counting agree with the function",
        "theorems": ["Meddly.EDD.enumerateE_spec", "Meddly.EDD.enumerateE_sorted", "Meddly.EDD.enumerateE_nodup", "Meddly.EDD.cardE_eq_length", "Meddly.DD.enumerate_spec", "Meddly.DD.enumerateMask_spec", "Meddly.DD.enumerate_mem_iff",
                     "Meddly.DD.enumerate_sorted", "Meddly.DD.card_eq_length",
                     "Meddly.Dump.nodeCount_spec", "Meddly.Dump.edgeCount_spec",
                     "Meddly.Dump.evalFast_eq_evalChild"],
        "quick": [fam("iter")],
        "thorough": [fam("iter", "asan")],
        "leanchecker": ["MeddlyModel.Ops.Enumerate"],
        "design_ref": "DESIGN.md §5 C11",
        "level_text": "Lean model of dd_edge::iterator (first_unpr/first_pri/next: top-down, indices ascending, transparent terminal never entered, skipped red positions expanded, skipped ident positions forced to the value above, bound positions / DONT_CHANGE from the mask) with enumerateMask_spec / enumerate_spec for EVERY shape (all three reduction modes, any sizes), tree, mask and prefix: the visited list equals the lexicographic list of all assignments filtered by (matches mask and value != transparent), with the function's value - hence sorted (enumerate_sorted), duplicate-free, complete and value-correct (enumerate_mem_iff). card (mirror of card_templ: skipped positions scale by the variable size except ident positions) equals the length of that enumeration (card_eq_length). Dump.nodeCount / edgeCount equal the number of distinct handles reachable (inductive Reach) and the sum of their full / non-transparent child entries (nodeCount_spec, edgeCount_spec). Tie: differential - every forest kind (MT bool/int/real sets and relations under all rules, EV+ sets/relations, EV*), random functions incl. identity patterns, the full visit sequence of the real iterator with no mask, EVERY mask on tiny domains and random masks (fixed / free / DONT_CHANGE, restart on a live iterator) compared order-sensitively with the right-hand side of the spec theorem computed from the edge's evaluate() table; CARDINALITY into long, double and mpz (plus cubes over up to 180 variables, counts far beyond 2^64, against exact products); getNodeCount / getEdgeCount(true/false) recounted by the model on a dump of the real node store; for MT forests the MODEL iterator and model cardinality are run on the unfolded real node structure and compared with the table.",
        "level_note": "Theorems are about the MT tree model; EV+ / EV* accumulation of edge values along the path is tied only differentially (visited values compared with evaluate()). The guard `up < size` at a skipped ident position in the model has no counterpart in the code (vacuous when primed and unprimed sizes agree, hypothesis of card_eq_length). Random-start iterators (dd_edge::random) and iterator equality beyond end-comparison are not covered. long/double results are compared exactly only below 2^62 / within 2^-40 relative.",
        "technique": "Lean 4 proof (induction on positions, list algebra) + differential correspondence (order-sensitive visit sequences, three result types, recount on dumps)",
        "partial": ["EV edge-value accumulation not in the tree model (differential only)", "dd_edge::random iterators not covered"],
    },
    "C15": {
        "title": "Index sets number the members of a set 0..n-1 in lexicographic order",
        "theorems": ["Meddly.IndexSet.index_eval", "Meddly.IndexSet.header_spec",
                     "Meddly.IndexSet.getElementSpec_rank", "Meddly.IndexSet.getElementSpec_some",
                     "Meddly.IndexSet.getElementSpec_none", "Meddly.IndexSet.getElement_spec",
                     "Meddly.DD.enumerate_spec"] +
                    # closed form rank <-> member of product sets: the oracle of the LARGE (beyond 2^32 members) cases
                    ["Meddly.ProdSet." + t for t in ["elem_mem", "rank_elem", "elem_rank", "rank_lt", "rank_none_iff", "elem_strictMono"]],
        "quick": [fam("index")],
        "thorough": [fam("index", "asan")],
        "leanchecker": ["MeddlyModel.Ops.IndexSet"],
        "design_ref": "DESIGN.md §5 C15",
        "level_text": "Lean model toIndex of mdd2index_operation::_compute on MT-bool trees (skipped positions unpacked as redundant nodes, children left to right, running total as edge value of non-empty children, total in the header, all-empty node -> transparent terminal) with index_eval: for every shape without identity positions (sets, fully or quasi reduced), every tree and every valid assignment the resulting EV+ tree evaluates to rank (= number of members lexicographically smaller) on members and to +infinity on non-members; header_spec: returned / stored cardinality = number of members, every node's header = sum of its children's. List level: getElementSpec i = i-th member in lexicographic order; getElementSpec_rank / _some / _none: it inverts rank and fails exactly outside 0..n-1 (always on the empty set); getElement_spec: the model of dd_edge::getElemLong (backward linear search over the sparse entries for the last edge value <= index, level by level, final test index > 0) run on toIndex's result returns getElementSpec for EVERY index (negative, inside, beyond n) and every set over at least one variable. Tie: differential - ALL subsets of the domains (2),(2,2),(3,2),(2,2,2) from fully- and quasi-reduced sources (warm compute table) and random larger domains: evaluate() table of the result against indexSpec, getElement(i) for i in -1..n+1 against getElementSpec, getIndexSetCardinality of EVERY node of the index forest recounted on a dump, iteration over the index set, source unchanged.",
        "level_note": "Theorems are about the Lean tree model of the EV+ index-set nodes (full child vector with offsets + stored cardinality); the model of getElement answers `none` when the root is the transparent terminal, where the real code dereferences the terminal: known finding F2 (getElement(i>=0) on the index set of the EMPTY set -> SIGSEGV), probed in a forked child in case 0; while it reproduces the other cases only ask i=-1 on empty index sets, once repaired they ask the whole range again (automatic). The compute table of the conversion (keyed by source node, only at the node's own level) is exercised warm but not modelled. getElemInt (int edge values) is unreachable: index-set forests use long edge values.",
        "technique": "Lean 4 proof (induction on positions; sorted-list rank lemmas) + exhaustive-small and random differential correspondence",
        "partial": ["convert2index compute table not modelled (exercised warm, differential)",
                    "large product sets (20-24 variables, more than 2^32 members): the oracle is the closed form of Spec/ProdSet.lean, proved to be the order isomorphism between [0, n) and the members (rank_elem, elem_rank, elem_strictMono); its identification with IndexSet.indexSpec on tables is the counting argument 'the member of rank i has i members before it', not a separate theorem"],
    },
    "C10": {'title': 'Copying between forests preserves the function',
     'theorems': ['Meddly.KnownFindings.FC10.FC10_1_violates', 'Meddly.KnownFindings.FC10.FC10_1_positive', 'Meddly.EDD.copyMTtoEV_eval_top', 'Meddly.EDD.copyEVtoMT_eval_top', 'Meddly.EDD.copy_roundtrip', 'Meddly.EDD.copyMTtoEV_unique',
                  'Meddly.DD.canon',
                  'Meddly.Dump.check_sound',
                  'Meddly.Dump.unfold_inj',
                  'Meddly.Dump.evalFast_eq_evalChild',
                  'Meddly.DD.apply1_eval_top',
                  'Meddly.DD.apply1_unique',
                  'Meddly.DD.copy_eval',
                  'Meddly.DD.copy_red',
                  'Meddly.DD.copy_unique',
                  'Meddly.DD.copy_roundtrip_iff',
                  'Meddly.DD.copy_roundtrip',
                  'Meddly.Copy.copyMT_eval',
                  'Meddly.Copy.copyMT_red',
                  'Meddly.Copy.copyMT_unique',
                  'Meddly.Copy.copyMT_roundtrip_iff',
                  'Meddly.Copy.copyMT_roundtrip',
                  'Meddly.Spec.copySupported_iff',
                  'Meddly.Spec.copy_shape_mismatch',
                  'Meddly.Spec.conv_hasKind',
                  'Meddly.Spec.conv_roundtrip'],
     'quick': [{'family': 'copy', 'flavor': 'plain', 'args': {}}],
     'thorough': [{'family': 'copy', 'flavor': 'asan', 'args': {}}],
     'leanchecker': ['MeddlyModel.Ops.Copy', 'MeddlyModel.Spec.Conv'],
     'design_ref': 'DESIGN.md §5 C10',
     'level_text': "Lean theorems copy_eval / copyMT_eval: the model's COPY between multi-terminal forests (unary apply with the scalar conversion Spec.conv, "
                   'source and target shapes with any of the three reduction rules, any domain) evaluates at EVERY assignment to the converted source value; '
                   "copy_red: the result is in the target forest's reduced form; copy_unique + DD.canon: any reduced result with that denotation (whatever "
                   'traversal: plain, relation-node rows, cold or warm compute table) is that tree; copy_roundtrip_iff / copyMT_roundtrip: there-and-back is the '
                   'IDENTICAL edge iff conv_back(conv(v)) = v on the range of the function, in particular for the lossless pairs (bool->*, int->int/real, '
                   "real->real; conv_roundtrip). copySupported_iff / copy_shape_mismatch: the factory's support table (modelled branch by branch) accepts exactly "
                   'the pairs of the same set/relation shape and refuses the others with TYPE_MISMATCH. Tie: differential runs of the real COPY over ALL ordered '
                   'pairs of the 25 legal forest kinds of one shape (MT bool/int/real, EV+, EV*, index sets; 307 pairs exercised, pair counts in STATS), two '
                   'distinct forests of one kind, the same forest, random policies; tables of random / constant / variable-ignoring / identity- and '
                   'singleton-patterned / near-duplicate / truncation-to-zero functions against Spec.conv pointwise; operands re-read; copy back compared with == '
                   'against table equality; warm-cache and post-release (handle reuse) recopies; certificates (Dump.check) of both node stores; unsupported pairs '
                   "(other shape, other domain, both) against the support table's error code.",
     'level_note': 'Tree-level theorems cover MT->MT only; MT<->EV+/EV*/index-set pairs are specified at table level (Spec.conv / Spec.copyImpl) and tied '
                   "differentially, not proved (no edge-valued tree model). copy_MT's own traversal (makeRedundantsTo / makeIdentitiesTo / redirectSingleton / "
                   "rel_node rows / compute table) is not modelled step by step: copy_unique reduces its correctness to 'result reduced + right table', which is "
                   'what the run observes. Reals stay on an exactness-safe grid (powers of two whenever EV* is involved); int->float beyond 2^24 and EV+ long->int '
                   'narrowing are excluded by the generator. THREE FINDINGS are steered away from by default and reproduced by fixed probe cases (edges '
                   'RF1*/RF2*/RF3*): F-C10-1 +infinity of an EV+/index-set source through the push-down copy becomes a context-dependent finite value; F-C10-2 '
                   'implicit zeros of an identity-reduced MT/EV* source become +infinity in an EV+ target; F-C10-3 COPY into an index-set forest (other than the '
                   "source's own) loses +infinity and never writes the nodes' cardinality header (duplicate nodes).",
     'technique': 'Lean 4 proof (corollaries of apply1_eval_top / apply1_red_top / DD.canon; case analysis of the factory table) + differential correspondence '
                  'over all kind pairs with pointwise oracle, == round trips and verified certificates of both node stores',
     'partial': ['MT<->EV and EV<->EV pairs: table-level specification only (differential), no tree-level theorem',
                 'copy_MT traversal helpers not modelled step by step (covered through copy_unique + certificates)',
                 'int->float exactness beyond 2^24, long->int narrowing excluded by generator',
                 'F-C10-1/2/3 (see NOTES / known_findings proposal): generator steers away, probes reproduce']},
    "C05": {
        "title": "Element-wise arithmetic, comparison, min/max and user-defined maps are pointwise",
        "theorems": CORE + APPLY + ["Meddly.KnownFindings.C05F1.C05_F1_violates", "Meddly.KnownFindings.C05F4.C05_F4_violates",
                                    "Meddly.KnownFindings.C05F2.C05_F2_violates", "Meddly.EDD.applyE2_eval_top", "Meddly.EDD.applyE2_red_top", "Meddly.EDD.applyE2_unique",
                                    "Meddly.EDD.evplus_plus_eval", "Meddly.EDD.evplus_min_eval", "Meddly.EDD.evplus_max_eval",
                                    "Meddly.EDD.evplus_minus_eval", "Meddly.EDD.evplus_minus_error_iff_denot"] + ["Meddly.Arith." + t for t in [
            "arith_eval", "arith_error", "arith_error_iff", "arith_red", "arith_unique",
            "unary_eval", "unary_red", "range_max_spec", "range_min_spec", "plus_zero_shortcut",
            "plus_zero_left", "minus_self", "minus_self_unsound", "minus_inf_right_invalid", "mult_zero_left",
            "mult_one_right", "mult_zero_inf_unsound", "div_self", "div_zero_left", "div_zero_zero_unsound",
            "mod_self", "mod_inf_inf_unsound", "max_inf_right", "min_inf_right", "le_inf_right"]] + [
            "Meddly.DD.applyE2_eval_top", "Meddly.DD.applyE2_error_iff", "Meddly.DD.applyE2_unique",
            "Meddly.DD.applyE2_answer", "Meddly.DD.rangeFold_absorbs", "Meddly.DD.rangeFold_attained"],
        # second run: minimal reproductions of the FINDINGS (harness/fam_arith.cc runProbes, cases 900000..);
        # every probe case is a DIFF that the C05 entries of known_findings.jsonl turn into KNOWN-FINDING lines.
        "quick": [fam("arith"), fam("arith", probe=1)],
        "thorough": [fam("arith", "asan"), fam("arith", "asan", probe=1)],
        "leanchecker": ["MeddlyModel.Ops.Arith"],
        "design_ref": "DESIGN.md §5 C05",
        "level_text": "Lean: Spec.Arith.scalar is the scalar semantics of the 14 binary operations (integer, real, EV+ with infinity; C++ / and %; DIST_MIN; comparisons typed by the result range), scalar1 of DIST_INC and the user maps, supportBin the accepted (operand, operand, result) kind triples with their error codes. Ops.Arith.applyE2 is the generic apply of a PARTIAL scalar operation over three forests with independent reduction rules; theorems for every domain / rule triple / operand pair: arith_eval (a result denotes the scalar operation at every assignment), arith_error + arith_error_iff (the model raises code e iff the scalar operation is invalid with some code at some assignment; e is the code of such an assignment), arith_red + arith_unique (the result is THE reduced diagram of the pointwise function), unary_eval/unary_red, range_max_spec/range_min_spec (upper bound and attained); applyE2_answer (a shortcut answer is right iff it is reduced and denotes the scalar operation on its sub-domain) with the catalogue of scalar identities behind every terminal shortcut (Shortcut algebra: plus_zero_*, minus_self, mult_one_*, div_self, max_inf_* ... and the *_unsound / *_invalid theorems that pin down the shortcuts whose identity fails: the FINDINGS). Tie: differential runs of the real PLUS MINUS MULTIPLY DIVIDE MODULO MAXIMUM MINIMUM DIST_MIN, six comparisons, DIST_INC, user_unary_factory maps, MAX_RANGE/MIN_RANGE over random domains (sets and relations), all rule triples and aliasing patterns, value kinds int-MT / real-MT / EV+ / EV*, operand scenarios aimed at each shortcut, cold and warm compute table, error cases (planted zero / infinity) raised twice with the operands re-read and the forests reused afterwards, rejected kind triples against the support table, result forests certified by Dump.check.",
        "level_note": "The theorems are about the tree model (function values in the leaves); EV+ / EV* edge-value normal forms are not modelled (EV results are checked by table, recount and model evaluation of the dump). The library's terminal shortcuts are not modelled: they agree with the scalar rule except on the classes listed as FINDINGS (x/x, x%x, 0/x with zero divisors; inf-inf; EV+ MINUS with identity-reduced subtrahend forest; 0*inf; MAX/MIN_RANGE ignoring zeros; DIST_INC with identity-reduced argument or non-fully-reduced result; node leak after a raised error). The generator steers away from exactly these classes (counters steer.*), `--hidden 1` / `--probe 1` reproduce them. Reals: on an exactness-safe grid, compared with the library's own tolerance; integer overflow not exercised.",
        "technique": "Lean 4 proof (induction on positions, Except-monad apply as corollary of apply2) + differential correspondence with the scalar oracle + support table + dump certificate",
        "partial": ["EV+/EV* normal form not modelled (table-level check only)", "reals on the exactness grid; float rounding not modelled",
                    "terminal shortcuts of arith_*.cc: scalar identities + the lifting criterion applyE2_answer are proved, the per-operation shortcut tables are not transcribed (covered differentially)",
                    "64-bit / 31-bit overflow (VALUE_OVERFLOW) not exercised"],
    },
    "C09": {'title': 'One-step image and vector-matrix products follow the relational definition',
     'theorems': ['Meddly.EDD.imageEV_eval', 'Meddly.EDD.imageEV_red', 'Meddly.EDD.imageEV_unique', 'Meddly.EDD.imageEV_empty', 'Meddly.DD.canon',
                  'Meddly.Dump.check_sound',
                  'Meddly.Dump.unfold_inj',
                  'Meddly.Dump.evalFast_eq_evalChild',
                  'Meddly.DD.imageG_eval',
                  'Meddly.DD.imageG_red',
                  'Meddly.DD.imageG_unique',
                  'Meddly.DD.imageDD_eval',
                  'Meddly.DD.post_eval',
                  'Meddly.DD.pre_eval',
                  'Meddly.DD.imageDD_red',
                  'Meddly.DD.imageDD_unique',
                  'Meddly.DD.vmDD_eval',
                  'Meddly.DD.vmDD_eval_sum',
                  'Meddly.DD.mem_allAssign',
                  'Meddly.DD.relFold_add_eq_sum',
                  'Meddly.DD.distDD_eval',
                  'Meddly.Img.post_iff',
                  'Meddly.Img.pre_iff',
                  'Meddly.Img.pre_eq_post_converse',
                  'Meddly.Img.post_mono',
                  'Meddly.Img.post_mono_rel',
                  'Meddly.Img.post_union',
                  'Meddly.Img.post_unionR',
                  'Meddly.Img.post_empty',
                  'Meddly.Img.post_emptyR',
                  'Meddly.Img.pre_union',
                  'Meddly.Img.post_closed'],
     'quick': [{'family': 'image', 'flavor': 'plain', 'args': {}}],
     'thorough': [{'family': 'image', 'flavor': 'asan', 'args': {}}],
     # reproducers of the repaired findings F-A..F-D run first
     'corpus': [{'family': 'image', 'flavor': 'plain', 'args': {'mode': 'probe'}}],
     'leanchecker': ['MeddlyModel.Ops.Image'],
     'design_ref': 'DESIGN.md §5 C09',
     'level_text': 'Lean model imageG of prepost_set_mtrel::_compute on trees (operand cofactor; relation cofactor at the unprimed then the primed position with '
                   'redundant / identity expansion of skipped levels, i.e. rel_node::outgoing; accumulation over the operand index; createReducedNode of the '
                   "result forest), generic in the template's arithmetic. imageG_eval: for EVERY domain, every operand tree, every relation tree of ANY rule "
                   "(fully/quasi/identity), every result rule, forward and backward, the result's value at y is the accumulate-fold over all operand states x of "
                   'combine(A x, R(x,y)). Instances: imageDD_eval/post_eval/pre_eval (y in result iff exists x in S with an edge), vmDD_eval(_sum) (sum over the '
                   'shared index of the products), distDD_eval (1 + min over reachable neighbours, -1 if none). imageG_red + DD.canon => '
                   "imageG_unique/imageDD_unique: any reduced edge of the result forest with that denotation IS the model's tree, which is how level-skipping "
                   'shortcuts, terminal cases and the compute table of the C++ are covered. Img.*: algebra of post/pre on List-enumerated finite state spaces '
                   '(monotone, distributes over unions, empty) for C08. Tie: differential runs of the real POST_IMAGE/PRE_IMAGE/VM_MULTIPLY/MV_MULTIPLY over '
                   'random non-uniform domains (1..3 variables), every (set kind x relation rule x result kind) the factories accept plus the rejected ones '
                   '(expected error code), MT boolean / MT integer distance / EV+ operands, integer and real vectors, structured relations (empty, identity, '
                   "per-variable products with identity / don't-care / explicit levels interleaved, unions of events, partial diagonals, self loops, dead ends), "
                   'cold and warm caches, result in the operand forest or a separate one, against the table-level relational specification (Spec/Image.lean); '
                   'operands re-read; result forests audited with the verified certificate checker; results compared (==) with the same function rebuilt from '
                   'minterms.',
     'level_note': 'Theorems are about the Lean tree model; the C++ shortcuts (terminal copy for identity-reduced relations, C[i]=A[i]*B over skipped identity '
                   'levels, Clevel=max(levels)+makeRedundantsTo, compute table) are not modelled step by step but subsumed by uniqueness of the reduced result; '
                   'the tie to /repo is the sampled correspondence. EV+ is covered at table level only (edge-valued trees are not modelled); real products only on '
                   'the exactness-safe grid; MT-integer results are compared up to the choice of the negative value when the operand carries several. The four '
                   'defects the family found while it was built (F-A unnormalised EV+ infinity edge, F-B skipped levels in a quasi-reduced result, F-C VM/MV_MULTIPLY '
                   'accepting EV+ vectors, F-D crash on a quasi-reduced distance set with terminal 0) are repaired in /repo (fix: commits c2a7718, bf000ee, 64c2922, '
                   '41a8b5e); the generator no longer steers around their triggers and their reproducers run as the corpus (--mode probe).',
     'technique': 'Lean 4 proof (induction on the number of variables, generic in the accumulate/combine arithmetic) + canonicity => uniqueness + differential '
                  'correspondence with the relational table oracle',
     'partial': ['EV+ images: table-level oracle only (no edge-valued tree model)',
                 'real-valued products on the dyadic grid only (float rounding not modelled)',
                 'C++ level-skipping shortcuts covered through uniqueness, not as a refinement proof']},
    "C14": {'title': 'Writing functions to an exchange file and reading them back is lossless',
     'theorems': ['Meddly.EVX.readTE_writeTE', 'Meddly.EVX.read_write_file', 'Meddly.EVX.decodeE_encodeE', 'Meddly.EVX.writeFE_shared', 'Meddly.DD.canon',
                  'Meddly.Dump.check_sound',
                  'Meddly.Dump.unfold_inj',
                  'Meddly.Dump.evalFast_eq_evalChild',
                  'Meddly.XFile.read_write_tree',
                  'Meddly.XFile.read_write_unfold',
                  'Meddly.XFile.read_write_length',
                  'Meddly.XFile.read_write_eval',
                  'Meddly.XFile.read_same_store',
                  'Meddly.XFile.read_canonical',
                  'Meddly.XFile.read_write_eval_cross',
                  'Meddly.XFile.read_write_eval_quasi',
                  'Meddly.XFile.read_write_eval_noident',
                  'Meddly.XFile.decode_encode',
                  'Meddly.XFile.read_counts_exact',
                  'Meddly.XFile.rebuild_of_Red',
                  'Meddly.XFile.rebuild_eval',
                  'Meddly.XFile.insertNode_spec',
                  'Meddly.XFile.order_ok',
                  'Meddly.XFile.readF_writeF'],
     'quick': [{'family': 'io', 'flavor': 'plain', 'args': {}}],
     'thorough': [{'family': 'io', 'flavor': 'asan', 'args': {}}],
     'leanchecker': ['MeddlyModel.Ops.ExchangeFileProofs'],
     'design_ref': 'DESIGN.md §5 C14',
     'level_text': 'Lean model of mdd_writer/mdd_reader down to tokens (marking, bottom-up numbering by position, one record per node in sparse (negative size + '
                   'index list) or truncated-full form chosen by an ARBITRARY storage policy, root list; reader = per-record resolve through the file-index map + '
                   'createReducedNode without incoming index on a unique-table store). Theorems for every store, root list (shared sub-graphs, terminal and '
                   'repeated roots, empty list), domain and reduction rule: read_write_unfold/read_write_eval/read_write_length - reading what a canonical forest '
                   'wrote into ANY well-formed forest of the same shape gives back the same trees, hence the same functions, in the same order; read_same_store - '
                   'into the writer itself: the identical edges and no new node; read_canonical - the receiver still passes the verified canonical-form '
                   "certificate; read_write_tree/read_write_eval_cross/read_write_eval_quasi - across rules the file's graph is interpreted under the READER's "
                   'rule, and quasi-reduced writers are lossless for every reader; decode_encode - the token level is lossless for every sparse/full choice; '
                   'read_counts_exact - on EVERY file the reader accepts, its link/unlink bookkeeping (link per resolved child, unlinkAllDown on duplicate / '
                   'redundant elimination, link per root, release of the map) leaves every reference count equal to the recount. Tie: differential runs of the '
                   'real writer/reader over every forest kind (MT bool/int/real, EV+, EV*, index sets; all rules), in-memory streams and files, random storage '
                   'policies on both sides, three receivers (same forest, pre-populated forest of the same kind, forest created from the file), tables '
                   'before/after compared exactly, == against the originals and against equal functions already held, audits (certificate + exact reference '
                   'recount) of the receiver, and a replay of the Lean read(write(dump)) whose result must be isomorphic to the real receiver, node for node.',
     'level_note': 'Theorems are about the Lean model; the tie to /repo is the sampled correspondence run. Edge values (EV+/EV*) and the index-set cardinality '
                   'header are NOT in the Lean model: they are covered by the differential run (tables, per-node header sequence). Reference counts are modelled '
                   'as integers (no counter widths: C06) and tied by the recount audit and the leak check of the run. Decimal printing/parsing of reals is not '
                   'modelled: the run compares the floats exactly (MT real terminals are printed with 11, EV* edge values with 6 significant digits; generators '
                   'use values that need the printed precision for MT and powers of two for EV*). Malformed files are outside the property (C16).',
     'technique': "Lean 4 proof (forward simulation of the reader against the writer's numbering; certificate transfer) + differential round trips + structural "
                  'replay of the model on dumps of the real forests',
     'partial': ['edge values and the index-set header only by correspondence (no Lean model)',
                 'decimal formatting of reals not modelled',
                 '(C14-F1, domain::create(input&) reversing the variable order written by domain::write, is repaired in /repo: fix 50387d1; its probe case still runs on every check and the domain-from-file path is exercised unsteered)']},
    "C16": {'title': 'Misuse is rejected with the documented error and leaves all functions intact',
     'theorems': ['Meddly.Errors.precheck_total_partial',
                  'Meddly.Errors.precheck_sound_partial',
                  'Meddly.Errors.lax_exact',
                  'Meddly.Errors.precheck_complete',
                  'Meddly.Errors.codes_documented',
                  'Meddly.Errors.domain_only',
                  'Meddly.Errors.goodA_all',
                  'Meddly.Errors.insert_monotone',
                  'Meddly.Errors.error_keeps_state',
                  'Meddly.Errors.apply2E_sound',
                  'Meddly.Dump.check_sound',
                  'Meddly.Dump.unfold_inj',
                  'Meddly.C19.int_overflow',
                  'Meddly.C19.int_roundtrip'],
     'quick': [{'family': 'errors', 'flavor': 'plain', 'args': {}}],
     'thorough': [{'family': 'errors', 'flavor': 'asan', 'args': {}}],
     'leanchecker': ['MeddlyModel.Ops.ErrorsTable', 'MeddlyModel.Ops.Errors'],
     'design_ref': 'DESIGN.md §5 C16',
     'level_text': 'precheck = the decision table of every constructor / factory of the catalogue (39 operations), transcribed from the code in the order of its '
                   'tests; compatible = the documented requirements, declaratively; lax = the documented requirements no constructor tests. Theorems, by kernel '
                   "evaluation of the WHOLE finite table (about 67 600 rows, lifted to every legal forest kind): lax_exact (lax is exactly 'incompatible and "
                   "accepted'), precheck_total_partial / precheck_sound_partial (outside lax: incompatible => rejected with a code, accepted => compatible), "
                   'precheck_complete (compatible => accepted), codes_documented (no outcome is a crash), domain_only. error_keeps_state / insert_monotone: whatever '
                   'nodes an aborted operation leaves in the store, every handle obtained before unfolds to the same tree, evaluates to the same values and stays '
                   'canonical; apply2E_sound: an apply whose scalar operation can fail either fails as a whole with an error the scalar operation really raised, '
                   'or returns exactly the total result. Tie: the real library is run over the full table (every operation x 13 forest kinds cubed x '
                   'same/different domain: 125 000 calls quick, 440 000 thorough), the observed code of every row must equal precheck and EVERY accepted row is '
                   'also computed (no row is withheld); deep run-time errors '
                   '(zero divisor / infinite subtrahend / terminal overflow planted at a random assignment of a large operand, with cold and warm compute tables), '
                   'values around +-2^30 through four API entry points, 26 scripted misuses (foreign or detached result edge, wrong minterm shape/domain, '
                   'exhausted iterator, destroyed forest ...): observed code = documented code, all held edges re-read, canonical-form certificate and one-sided '
                   'reference recount of every involved forest, follow-up operation against the oracle.',
     'level_note': 'The full-strength precheck_total is false for the code that exists: lax_exact delimits the gap (arithmetic on Boolean forests, comparison of '
                   'index sets, non-Boolean relation or foreign result forest in reachability, vector-matrix product over mixed ranges). Nothing is steered away: '
                   'the crash classes F1..F6 and F8 of the first round are repaired in the library; the last one (F8b: operand edges of '
                   'binary_operation::compute not tested) is repaired as well (fix ff54c79); its reproducer (case 99) still runs in a forked child on every check. Aborted operations leak references (stored in-count above the recount): reported as '
                   'information (leakinfo), the audit is one-sided (never below) because the property demands canonical and usable, not leak-free. C++ unwinding / '
                   'memory safety on the error paths is shown by the ASan flavour on the explored scripts (thorough tier), not by a theorem.',
     'technique': 'Lean 4 proof (kernel evaluation of the whole finite decision table + induction on the store) + exhaustive differential run of the table + '
                  'scripted error injection with certificates',
     'partial': ['precheck_total only modulo lax (documented requirements the library does not test)',
                 'EV forests: canonical form after an error checked by duplicate search + model evaluation, not by Dump.check',
                 'old-style operations (PRE_PLUS, POST_PLUS, TC_POST_IMAGE, MM_MULTIPLY, constrained/transitive closure) are not in the table']},
    "C03": {'title': 'Functions built from minterms, constants and variables evaluate as specified',
     'theorems': ['Meddly.DD.canon',
                  'Meddly.Dump.check_sound',
                  'Meddly.Dump.unfold_inj',
                  'Meddly.Dump.evalFast_eq_evalChild',
                  'Meddly.DD.apply2_eval',
                  'Meddly.DD.apply2_red',
                  'Meddly.DD.mkNode_red',
                  'Meddly.Build.buildColl_sem',
                  'Meddly.Build.buildColl_eval',
                  'Meddly.Build.buildColl_red',
                  'Meddly.Build.buildColl_perm',
                  'Meddly.Build.semColl_eq_spec',
                  'Meddly.Build.buildMinterm_eval',
                  'Meddly.Build.buildMinterm_red',
                  'Meddly.Build.buildSet_single',
                  'Meddly.Build.constant_eval',
                  'Meddly.Build.constant_red',
                  'Meddly.Build.edgeForVar_eval',
                  'Meddly.Build.edgeForVar_red',
                  'Meddly.Build.buildFunctionMax_int',
                  'Meddly.Build.buildFunctionMin_evplus',
                  'Meddly.EvalWalk.evalWalk_eq_den',
                  'Meddly.EvalWalk.evaluate_congr',
                  'Meddly.EvalWalk.walkIdent_eq_eval',
                  'Meddly.EvalWalk.walkJump_eq_eval',
                  'Meddly.Spec.finalizeMaxInf_eq',
                  'Meddly.Spec.finalizeMinInf_eq',
                  'Meddly.Spec.semiLat_maxInf',
                  'Meddly.Spec.semiLat_minInf'],
     'quick': [{'family': 'build', 'flavor': 'plain', 'args': {}}],
     'thorough': [{'family': 'build', 'flavor': 'asan', 'args': {}}],
     'leanchecker': ['MeddlyModel.Ops.Build', 'MeddlyModel.Ops.EvalWalk', 'MeddlyModel.Spec.Minterms'],
     'design_ref': 'DESIGN.md §5 C03',
     'level_text': 'Lean model of the builders on decision-diagram trees, node by node as minterms.cc builds them (setPathToBottom / relPathToBottom / '
                   "identityPattern / createEdgeSet / createEdgeRel: partition by the entry at each level, a Cp node per unprimed value, don't-care and "
                   "don't-change groups accumulated by the element-wise max/min = apply2; every node through mkNode = createReducedNode), for every shape (any "
                   'number of variables, sizes >= 2, fully / quasi / identity reduced, sets and relations), every value type with a '
                   'commutative-associative-idempotent max/min (instances: Int, Int with +infinity for EV+, Bool) and every finite collection with any mix of '
                   "fixed / don't-care / don't-change entries. Theorems: buildColl_sem (the tree evaluates to the code-mirroring recursion semColl at every "
                   'assignment, contract or not), buildColl_eval (under the documented contract default<=values / >=values it is the specification: max/min over '
                   'the matching minterms, default elsewhere), buildColl_red + buildColl_perm (reduced form; independent of the order of the collection, by '
                   'DD.canon), buildMinterm_eval, constant_eval, edgeForVar_eval (primed and unprimed, with and without terms), evalWalk_eq_den (the three walks '
                   'of dd_edge::evaluate compute the denotation and nothing else); a decided witness shows the contract guard is needed. Tie: differential runs of '
                   'the real buildFunction / buildFunctionMax / buildFunctionMin / createConstant / createEdgeForVar over random domains (1..5 variables, sizes '
                   '2..4), every forest kind (MT bool/int/real, EV+, EV*, all rules) and random policies: dd_edge::evaluate at EVERY assignment against specColl '
                   '(inside the contract) or semColl (outside: the model reproduces what the code returns there), the dumped node store certified reduced and '
                   "re-evaluated by the model's eval, shuffled collections must give the identical edge; exhaustive sub-tier: all collections of <= 2 minterms "
                   'over (2,2) sets and (2) relations, MT bool/int, all rules, max and min, on- and off-contract defaults.',
     'level_note': 'Theorems are about the Lean tree model; the tie to /repo is the sampled + exhaustive-core correspondence run. EV+/EV* forests are modelled as '
                   'trees of values (edge-value normalisation and the accumulation in evaluate are compared through the dump by the acceptor, not proved). Reals '
                   "stay on an exactness-safe grid. FINDING (genuine defect, see known_findings / NOTES): a minterm whose value is the forest's transparent value "
                   'built with a transparent default makes setPathToBottom/relPathToBottom pass an unwritten sparse slot to createReducedNode; the generators '
                   'steer away from exactly that trigger while the defect is present (auto-detected), the probe run reproduces it.',
     'technique': 'Lean 4 proof (induction on positions / variables over a reduced-tree invariant; contract theorem by a per-minterm accumulation algebra) + '
                  'differential correspondence at every assignment + verified certificate of the dumped structure',
     'partial': ['reals on the exactness-safe grid only',
                 'EV+/EV* edge-value normalisation not modelled (compared via dump evaluation)',
                 'illegal minterms (DONT_CHANGE with a fixed unprimed value set bypassing setVars, out-of-range entries) not modelled']},
    "C08": {'title': 'Reachability operations return exactly the least fixed point',
     'theorems': ['Meddly.KnownFindings.F7.F7_violates', 'Meddly.KnownFindings.F7.F7_positive', 'Meddly.KnownFindings.SatSets.F4_violates', 'Meddly.KnownFindings.SatSets.F4_repaired', 'Meddly.KnownFindings.F10.F10_violates', 'Meddly.Satur.satur_eq_lfp', 'Meddly.Satur.saturate_sound', 'Meddly.Satur.saturate_closed', 'Meddly.Satur.satLoop_stops', 'Meddly.Satur.saturate_red', 'Meddly.Satur.satur_eq_bfs', 'Meddly.Satur.satur_eq_reach_lfp', 'Meddly.Satur.recFire_sound', 'Meddly.Satur.recFire_closed', 'Meddly.Reach.lfpIter_spec',
                  'Meddly.Reach.bfs_nofrontier_eq_lfp',
                  'Meddly.Reach.bfs_frontier_eq_lfp',
                  'Meddly.Reach.bfs_algorithms_agree',
                  'Meddly.Reach.pre_eq_post_conv',
                  'Meddly.Reach.bfs_backward_spec',
                  'Meddly.Reach.dist_eq_shortest',
                  'Meddly.Reach.dist_none_iff',
                  'Meddly.Reach.dist_nofrontier_eq_dist',
                  'Meddly.Reach.chaotic_eq_lfp',
                  'Meddly.Reach.split_union',
                  'Meddly.Reach.reachable_split',
                  'Meddly.Reach.saturation_schedule_correct',
                  'Meddly.Reach.satur_eq_lfp_partial',
                  'Meddly.Reach.lfp_idem',
                  'Meddly.Reach.lfp_least',
                  'Meddly.Reach.lfp_mono_init',
                  'Meddly.Reach.lfp_mono_rel',
                  'Meddly.Reach.lfp_union',
                  'Meddly.Reach.lfp_congr_init',
                  'Meddly.Reach.post_lfp_sub',
                  'Meddly.Reach.lfp_ext',
                  'Meddly.Reach.dist_isSome_iff_mem_lfp',
                  'Meddly.Reach.dist_zero_iff',
                  'Meddly.Reach.dist_mono_init',
                  'Meddly.Spec.ReachTables.reachList_spec',
                  'Meddly.Spec.ReachTables.distList_spec'],
     'quick': [{'family': 'reach', 'flavor': 'plain', 'args': {'allow': 'F4,F7,F8,F9,F10'}}],   # F4, F10 repaired by fix: commits: no steering
     'thorough': [{'family': 'reach', 'flavor': 'asan', 'args': {'allow': 'F4,F7,F8,F9,F10'}}],
     'leanchecker': ['MeddlyModel.Ops.Reach', 'MeddlyModel.Ops.ReachLaws', 'MeddlyModel.Spec.ReachTables'],
     'design_ref': 'DESIGN.md §5 C08',
     'level_text': 'Closure laws as list equalities (Ops/ReachLaws: lfp_idem, lfp_least, post_lfp_sub, lfp_mono_init/rel, lfp_union, lfp_congr_init), tied by a second call of the same algorithm from every boolean answer (same edge required). ' +
                   'Lean theorems over an arbitrary finite state space (any enumeration `states` of a type with decidable equality, any relation, any initial '
                   'set): lfpIter_spec (|states| rounds of S -> init u S u post R S hold exactly the reflexive-transitive closure), bfs_nofrontier_eq_lfp / '
                   'bfs_frontier_eq_lfp (the two loops of reach_trad.cc, modelled step for step with their own stop tests, STOP within |states|+1 rounds and '
                   'return that identical canonical set; backward = forward on the converse relation, bfs_backward_spec), dist_eq_shortest / dist_none_iff '
                   "(distance = least path length, 'unreachable' exactly off the closure) and dist_nofrontier_eq_dist (the no-frontier loop over (min,+1) as run "
                   "for MT-integer and EV+ sets stops and returns those distances), split_union / reachable_split (fillSplit's split by common diagonal denotes "
                   'the relation up to self-loops) and chaotic_eq_lfp / saturation_schedule_correct (ANY order of firing the pieces that ends closed under every '
                   'piece ends in exactly the reachable set). Tie: differential runs of REACHABLE_TRAD_FS, REACHABLE_TRAD_NOFS, REACHABLE_SATUR(.,1), forward and '
                   'backward, on explicit relations (events with identity-skipped levels, non-trivial top-level diagonals, self-loops, nondeterminism, dead ends, '
                   'chains, empty/full) and initial sets over 11-18 domain shapes, boolean / MT-integer-distance / EV+-distance sets (fully and quasi), relation '
                   'forests of all three rules, random storage / memory-manager / deletion policies, successive calls with different relations in the same forests '
                   "with warm and cleared compute tables, results compared with the specification tables, pairwise == of the algorithms' results, operands "
                   're-read, result and relation forests certified after the calls; plus the exhaustive tier: all 16 relations x 4 initial sets on a 2-state '
                   'domain x every algorithm x both directions x 15 forest combinations.',
     'level_note': 'The decision-diagram recursion of saturation (saturate_1 / recFire, their compute-table entries, the explorer objects) is NOT modelled: for '
                   'saturation the theorems cover the split and scheduling independence, the rest is the differential tie. Of the defects the family found, F4 (stale satfire entries), F6, F8 (NOFS with a '
                   'non-fully-reduced MT-integer result forest), F9 (BFS with the initial set in another forest than the result) and F10 (saturation on MT-integer sets '
                   'with a distance-0 state) and F7 / F5(b) (wrong split of fully- / quasi-reduced relation forests: too few states) are repaired in /repo (fix: commits, last 709bd2b) and run '
                   'unsteered (--allow F4,F7,F8,F9,F10); the one that remains recorded - F5(a), the crash of saturation on quasi-reduced relation forests - is steered '
                   'around by the generator (harness option --allow lifts the steering) '
                   "and re-probed on every run in forked children at cases 900000+; the probes' diffs are matched by known_findings.jsonl. The steering predicates "
                   '(f6Trigger, f7Trigger in harness/fam_reach.cc) are themselves validated on every run: outside them every saturation result must match the '
                   'specification.',
     'technique': 'Lean 4 proof (monotone growth / pigeonhole for termination, loop invariants, chaotic iteration) + differential correspondence with the closure '
                  'oracle + exhaustive 2-state tier + tagged probes of known triggers',
     'partial': ["saturation's DD recursion (children first, fixed-point loop per level, recFire saturating its result) IS modelled on trees and proved equal to the least fixed point for every number of levels (Ops/Saturation*.lean: satur_eq_lfp, satLoop_stops, saturate_red, satur_eq_bfs) with the relation abstracted to a semantic function and whole sweeps instead of the index queue; its compute-table use and the relation-as-DD split-by-diagonal are not modelled",
                 'deprecated names REACHABLE_STATES_BFS/DFS are compiled out in this tree (ALLOW_DEPRECATED_0_18_1 undefined): not exercised'],
     'rule': 'cases 0..N-1: random scenarios from (seed, case); cases 800000..: exhaustive 2-state tier; cases 900000..: fixed probes of known trigger classes '
             '(forked)'},
    "C13": {'title': 'Variable reordering preserves every function and every held edge',
     'theorems': ['Meddly.DD.swapVarRel_eval', 'Meddly.DD.swapVarRel_red', 'Meddly.DD.swapVarRel_canonical', 'Meddly.DD.swapVarRel_involutive', 'Meddly.DD.levelSwap4_eq_swapVarRel', 'Meddly.EDD.swapAdjE_eval', 'Meddly.EDD.swapAdjE_red', 'Meddly.EDD.swapAdjE_canonical', 'Meddly.Reorder.reorderRel_preserves_function', 'Meddly.Reorder.reorderRel_preserves_reduced', 'Meddly.Reorder.reorderE_preserves_function', 'Meddly.Reorder.reorderE_preserves_reduced', 'Meddly.DD.canon',
                  'Meddly.Dump.check_sound',
                  'Meddly.Dump.unfold_inj',
                  'Meddly.Dump.evalFast_eq_evalChild',
                  'Meddly.Reorder.swap_reduces_inversions',
                  'Meddly.Reorder.schedule_bound',
                  'Meddly.Reorder.maximal_schedule_reaches_target',
                  'Meddly.Reorder.schedule_terminates_at_target',
                  'Meddly.Reorder.swap_preserves_varfunction',
                  'Meddly.Reorder.reorder_preserves_function',
                  'Meddly.Reorder.reorder_preserves_reduced',
                  'Meddly.DD.swapAdjDD_eval',
                  'Meddly.DD.swapAdjDD_red',
                  'Meddly.DD.swap_canonical',
                  'Meddly.DD.swap_swap',
                  'Meddly.DD.relSwap_four_level_swaps_partial',
                  'Meddly.DD.mkNode_red'],
     # the third run SCREENS many more cases in the harness (a held function changed, an evaluation threw, a rebuilt
     # function is not the held edge, a leak) and writes out only the suspicious ones plus every 400th as a sample:
     # the search is the harness's, the verdict on what is written out is the acceptor's (seed C13b needs ~1 case in 3500)
     'quick': [{'family': 'reorder', 'flavor': 'plain', 'args': {}}, {'family': 'reorder', 'flavor': 'asan', 'args': {'cases': 110}},
               {'family': 'reorder', 'flavor': 'plain', 'args': {'only': 'relations', 'screen': 400, 'cases': 20000}}],
     'thorough': [{'family': 'reorder', 'flavor': 'plain', 'args': {}}, {'family': 'reorder', 'flavor': 'asan', 'args': {'cases': 300}},
                  {'family': 'reorder', 'flavor': 'plain', 'args': {'only': 'relations', 'screen': 400, 'cases': 60000}},
                  {'family': 'reorder', 'flavor': 'plain', 'args': {'screen': 400, 'cases': 30000}}],
     'leanchecker': ['MeddlyModel.Ops.Reorder'],
     'design_ref': 'DESIGN.md §5 C13',
     'level_text': 'Orders: every swap of an adjacent inversion (the test the heuristics apply to var2level of the target) removes exactly one inversion '
                   '(swap_reduces_inversions); a schedule of adjacent inversions has at most `inversions` swaps, one that cannot be continued IS at the target '
                   'order, and any picker that only swaps adjacent inversions and stops only when there is none ends at the target, whatever it picks '
                   '(schedule_bound, maximal_schedule_reaches_target, schedule_terminates_at_target). Trees (fully- and quasi-reduced multi-terminal set forests, '
                   "any domain and sizes): swapAdjDD rebuilds the two exchanged levels from the cofactors through the model's createReducedNode; swapAdjDD_eval: "
                   'it denotes the old function with the two positions exchanged; swapAdjDD_red + swap_canonical (via DD.canon): it is THE reduced tree of that '
                   'function, so in-place overwriting without duplicate detection cannot create duplicates and equality of held edges is preserved; swap_swap: '
                   'undoing a swap restores the tree; reorder_preserves_function / reorder_preserves_reduced: ANY list of adjacent swaps (every heuristic, '
                   "including lowest_memory's tentative swaps) leaves the function OF THE VARIABLES of every tree unchanged and the tree reduced for the current "
                   'order. Tie: the real reorderVariables is driven for every permutation of <=3 (quick) / <=4 and, in a third of the 5-variable cases, 5 '
                   '(thorough) variables and sampled ones otherwise, all eight heuristics (switched in flight through the non-const policy accessor), MT bool/int '
                   'sets and relations under every rule, EV+ sets, 1..6 live edges sharing nodes, warm and cold compute tables, a bystander forest (sometimes '
                   'itself reordered, sharing the order object); observed: getVariableOrder == target, by-variable table of every held edge identical, by-level '
                   'table = the permutation of it (Spec.levelTable), verified canonical-form certificate of the dump in the shape of the NEW order, model '
                   'evaluation of the dumped roots, reference recount, rebuilt function == held edge, follow-up operations against the pointwise oracle, bystander '
                   'order / tables / reachable node set unchanged, reorder back to the default order == freshly built edges; sanitizer flavour in both tiers.',
     'level_note': 'Tree-level theorems cover forests without identity-reduced positions (all set forests); for RELATION forests only the function-level '
                   'decomposition of the variable swap into four level swaps is proved (relSwap_four_level_swaps_partial) and for EV+ nothing at tree level: those '
                   'are tied to the specification by the differential run alone. Which schedule a heuristic takes is not predicted (node-count / '
                   'rand()-dependent); lowest_memory is not an inversions-only schedule, its final order is only observed. The three defects the family found - F3 (var2level overflow in six heuristics), LSW '
                   '(policies::isLevelSwap typo: LEVEL swap a silent no-op / endless loop), IDSZ (variable swap in a relation forest between adjacent variables of '
                   'different sizes changed functions) - are repaired in /repo (fix: bacd83c, 9f8e485, aee3c18); their probe cases 0..10 still run on every check and '
                   'the pre-probes that used to switch the steering on now find the library sound, so the main cases use every heuristic, LEVEL swaps and relation '
                   'forests over mixed sizes.',
     'technique': 'Lean 4 proof (inversion counting; induction on positions; canonicity) + differential correspondence over permutations x heuristics with '
                  'verified certificates of the reordered node store',
     'partial': ['relations: tree-level swap not modelled (function level + differential)',
                 'EV+: no tree model (differential)',
                 'schedule taken by a heuristic not predicted',
                 'index-set and real-valued forests not exercised']},
    "C20": {'title': 'Saturation over a partitioned relation equals reachability over its union',
     'theorems': ['Meddly.KnownFindings.F12.F12_violates', 'Meddly.KnownFindings.F12.F12_positive', 'Meddly.Satur.satur_eq_lfp', 'Meddly.Satur.saturate_sound', 'Meddly.Satur.saturate_closed', 'Meddly.Satur.satLoop_stops', 'Meddly.Satur.saturate_red', 'Meddly.Satur.satur_eq_bfs', 'Meddly.Satur.satur_eq_reach_lfp', 'Meddly.Satur.recFire_sound', 'Meddly.Satur.recFire_closed', 'Meddly.Pregen.saturEvents_eq_lfp',
                  'Meddly.Pregen.reachFix_eq_lfp',
                  'Meddly.Pregen.closed_superset_reach',
                  'Meddly.Pregen.saturEvents_sound',
                  'Meddly.Pregen.reach_ignores_selfloops',
                  'Meddly.Pregen.finalize_events_union',
                  'Meddly.Pregen.events_topLevel_ok',
                  'Meddly.Pregen.dropped_events_selfloops',
                  'Meddly.Pregen.mergeByLevels_union',
                  'Meddly.Pregen.finalize_None_union',
                  'Meddly.Pregen.finalize_SplitOnly_union',
                  'Meddly.Pregen.finalize_SplitSubtract_union',
                  'Meddly.Pregen.finalize_SplitSubtractAll_union',
                  'Meddly.Pregen.finalize_MonolithicSplit_union',
                  'Meddly.Pregen.topLevel_ok',
                  'Meddly.Pregen.pregen_events_sat_eq_reach',
                  'Meddly.Pregen.pregen_levels_sat_eq_reach',
                  'Meddly.Pregen.equals_monolithic',
                  'Meddly.Pregen.renormLevels_ok',
                  'Meddly.DD.canon'],
     'quick': [{'family': 'pregen', 'flavor': 'plain', 'args': {}}],
     'thorough': [{'family': 'pregen', 'flavor': 'asan', 'args': {}}],
     'leanchecker': ['MeddlyModel.Ops.Pregen'],
     'design_ref': 'DESIGN.md §5 C20',
     'level_text': 'Lean model of pregen_relation on the level of sets of pairs over tuple states, as coded: root level of a relation (topOf, the least level it '
                   'fits = the DD root level in an identity-reduced forest), by-events bucket sort (finalizeByEvents), by-levels addToRelation (mergeByLevels), '
                   "splitMxd's common diagonal, the SplitOnly / SplitSubtract / SplitSubtractAll main loop with its empty-diagonal shortcut, the closing "
                   'subtraction loop, unionLevels, finalize(option). Theorems for ALL domains, event lists and options: every option keeps the union of the levels '
                   '(finalize_<opt>_union), what is stored at level k is the identity above k and independent of the variables above k (topLevel_ok, '
                   'events_topLevel_ok), dropped level-0 events and level-0 leftovers are self-loops; the chaotic-iteration lemma (ANY firing schedule over the '
                   'per-level relations that ends closed = the reachable set of the union: saturEvents_eq_lfp, composed in pregen_events_sat_eq_reach / '
                   "pregen_levels_sat_eq_reach for both construction modes and every option); reachFix_eq_lfp: the acceptor's specification is the least fixed "
                   'point; equals_monolithic: two reduced results denoting that set are the same edge (DD.canon). Tie: random event lists (1..6 events; local / '
                   'guarded / self-loop / sparse / rotate / havoc / identity / empty / full generators) on 17 domain shapes, both modes x all 5 options, several '
                   'initial sets, set forest fully or quasi reduced; the real SATURATION_FORWARD result is compared with the specification table, with '
                   'REACHABLE_TRAD_NOFS on the UNION (table and dd_edge ==), the per-level relations after finalize (arrayForLevel) are compared level by level '
                   "with the model's finalize, every event's root level with topOf, operands re-read, forests audited.",
     'level_note': 'The DD recursion saturateHelper/recFire (which sub-node is fired when, compute tables, in-place node update) is NOT modelled: it is covered as '
                   "'some firing schedule' by the chaotic-iteration theorem plus the differential result check. The model describes the library with the repairs "
                   'of F1 (splitMxd initIdentity overload) and F8 (unionLevels negative index) applied and without the re-bucketing proposed for F11 (renormLevels '
                   'models it, switched on by --model-renorm 1); on the unrepaired tree the generator steers away from exactly those trigger classes '
                   '(auto-detected through probe cases 0, 6, 12, 13) and fixed probe cases keep reporting them. Relation forests: identity-reduced (all '
                   'combinations) and quasi-reduced (by events; by levels without splitting); fully-reduced relation forests and quasi-reduced ones with splitting '
                   "give wrong results (F9, F10, probes). The Lean level array is a closure; the acceptor replays finalize with the model's primitives and "
                   "tabulation (glue), compared phase by phase with the model's definitions on domains of up to 8 states.",
     'technique': 'Lean 4 proof (set algebra on level arrays, chaotic iteration) + differential correspondence (result vs. lfp specification and vs. BFS edge) + '
                  'structural comparison of the finalized per-level relations with the executable model',
     'partial': ['saturateHelper/recFire: modelled and proved in Ops/Saturation*.lean for a recFire that enters EVERY level; the recFire of sat_pregen.cc jumps to MAX(|mxd level|, mdd level), which is exactly known finding F12 (levels skipped by both set and relation node are never saturated with a fully-reduced set forest)',
                 'backward saturation (SATURATION_BACKWARD) not exercised',
                 "acceptor glue replays finalize with the model's primitives (phase-wise cross-check on <= 8 states)"]},
}

NOT_YET = {}


# DIFF kinds that are direct failures of the stated property on the implementation
# (the oracle is the property itself), per family.  Every other kind is a broken
# correspondence between model and code.
# Regular expressions on the whole DIFF line that also mark a direct property failure.
ORACLE_PATTERNS = {
    # any family: generic `expect` records emitted next to every dump (C02: views agree and hash alike, the
    # unique table finds every stored node; C06: nothing leaks after release)
    "*": [r"kind=(views-agree|views-hash-alike|unique-table-finds-node|leak)"],
    # an out-of-range integer accepted, or a value not recovered through a real forest
    "terminal": [r"expected=overflow got=(?!overflow)", r"kind=(const|cedge|fv|fh)\.", r"kind=crash"],
    # recorded counts / liveness of a handle differ from the number of references the trace created
    "nodelife": [r"kind=nl\.handle", r"kind=nl\.mk\.new\.handle-not-free", r"kind=nl\.last", r"kind=nl\.final",
                 r"kind=(crash|truncated)", r"kind=nl\.etab"],
    "lifecycle": [r"kind=(edge-forest|table-unchanged|crash|truncated|out|forests)"],
}

ORACLE_KINDS = {
    # compute table: a hit on a dead entry, a wrong cached answer, a cache count that disagrees with the
    # real table's contents are direct failures of C07's statement
    "ctable": {"find-hit", "e2e-oracle", "e2e-config", "cc-vs-table", "reuse-while-cached", "e2e-cc", "crash", "truncated"},
    "memman": {"alloc-request", "bad", "scan-bad", "inval", "ovl", "crash", "tile-unknown-in-use"},
    "*": {"op-result", "operand-changed", "canonicity", "canonical", "refcount", "dangling", "dangling-root",
          "node-count", "build", "eval-vs-structure", "crash", "unexpected-error", "error-code", "op-should-fail",
          "harness"},
}
ORACLE_KINDS["iter"] = ORACLE_KINDS["*"] | {"iter-sequence", "cardinality", "node-count-edge", "edge-count",
                                            "iter-end-stays", "iter-eq-end", "missing-result"}
ORACLE_KINDS["index"] = ORACLE_KINDS["*"] | {"get-element", "header-cardinality", "iter-sequence", "cardinality"}
ORACLE_KINDS["io"] = ORACLE_KINDS["*"] | {'domain-from-file', 'numroots', 'leak-H', 'structure', 'leak-G', 'idxcards', 'created-kind', 'file-nodes', 'roundtrip-cross', 'numroots2', 'extra-root', 'domain-from-file-probe', 'roundtrip', 'leak-F', 'new-nodes'}
ORACLE_PATTERNS["reorder"] = [r"kind=(order|permcheck|bystander\S*|hang|crash)"]
