"""Per-property configuration: which Lean theorems decide it, which harness
families tie the model to the code, and how deep each tier goes."""

# Axioms a property theorem may depend on.
ALLOWED_AXIOMS = {"propext", "Classical.choice", "Quot.sound"}

# Theorems of the shared core, used by most properties.
CORE = [
    "Meddly.DD.canon",
    "Meddly.Dump.check_sound",
    "Meddly.Dump.unfold_inj",
    "Meddly.Dump.evalFast_eq_evalChild",
]
APPLY = [
    "Meddly.DD.apply2_eval_top",
    "Meddly.DD.apply2_red_top",
    "Meddly.DD.apply2_unique",
    "Meddly.DD.apply1_eval_top",
    "Meddly.DD.apply1_unique",
]

# family run: (family, flavor, extra args)
def fam(name, flavor="plain", **kw):
    return {"family": name, "flavor": flavor, "args": kw}


PROPS = {
    "C04": {
        "title": "Set algebra is pointwise",
        "theorems": CORE + APPLY + [
            "Meddly.DD.union_eval", "Meddly.DD.inter_eval", "Meddly.DD.diff_eval", "Meddly.DD.compl_eval",
            "Meddly.DD.union_red",
        ],
        "quick": [fam("setops")],
        "thorough": [fam("setops", "asan")],
        "design_ref": "DESIGN.md §5 C04",
        "partial": [],
        "level_text": "Lean theorems union_eval/inter_eval/diff_eval/compl_eval: the model's apply (position-wise recursion + createReducedNode) denotes the pointwise Boolean operator for every domain, every triple of reduction rules and every operand; apply2_unique + DD.canon: any reduced result with that denotation is that tree. Tie: differential runs of the real UNION/INTERSECTION/DIFFERENCE/COMPLEMENT over random domains, all forest triples and aliasing patterns, cold and warm caches, against the pointwise oracle, operands re-read afterwards.",
        "level_note": "Theorems are about the Lean tree model; the tie to /repo is the sampled correspondence run (harness setops + Lean driver). Compute-table transparency is C07's subject; terminal shortcuts of union.cc etc. are covered by the differential run, not by a theorem.",
        "technique": "Lean 4 proof (induction on positions) + differential correspondence with pointwise oracle",
    },
    "C19": {
        "title": "Values survive encoding into terminals and edge values",
        "theorems": [
            "Meddly.C19.int_roundtrip", "Meddly.C19.int_overflow", "Meddly.C19.int_inj", "Meddly.C19.int_zero_iff",
            "Meddly.C19.enc_nonzero_negative_int", "Meddly.C19.int_handle_roundtrip",
            "Meddly.C19.real_roundtrip", "Meddly.C19.real_roundtrip_zero", "Meddly.C19.real_inj", "Meddly.C19.real_zero_iff",
            "Meddly.C19.enc_nonzero_negative_real",
            "Meddly.C19.bool_roundtrip", "Meddly.C19.bool_zero_iff", "Meddly.C19.bool_decode_exact",
            "Meddly.C19.evplus_inf_preserved", "Meddly.C19.evplus_fin_preserved", "Meddly.C19.evtimes_preserved",
        ],
        "gen": ["Gen.Terminal"],
        "quick": [fam("terminal")],
        "thorough": [fam("terminal", "asan")],
        "leanchecker": ["MeddlyModel.Props.C19"],
        "level_text": "The encode/decode functions of terminal.h are REGENERATED into Lean (BitVec 64/32, C conversions taken from clang's typed AST) on every run and the round-trip / injectivity / overflow / unique-zero theorems are re-proved against them for all 2^64 longs and all 2^32 float bit patterns (kernel-only proofs, no bv_decide). A change of terminal.h that breaks the property breaks a proof; the differential run (1.3M records quick) validates the translator and the hand-written EV+/EV* edge model against the real terminal class and real forests.",
        "level_note": "Trusted: the translator (validated differentially on every run), clang's AST, float<->double conversions in the untranslated wrappers (setFromValue/getReal), the hand model of EV+ infinity / EV* zero (tied only differentially). MT real terminals below a node are rounded to 1e-5 by createReducedNode (documented terminal precision): modelled in the acceptor, outside the handle-encoding theorems.",
        "technique": "translator (clang AST -> Lean BitVec) + Lean 4 proof over all bit patterns + differential validation",
        "partial": ["double->float rounding at API entry is hardware behaviour (trusted)", "MT-real terminal precision rounding (1e-5) modelled in the acceptor only"],
    },
    "C18": {
        "title": "Memory managers never hand out overlapping or corrupted chunks",
        "theorems": ["Meddly.MemMan." + t for t in [
            "alloc_no_overlap", "alloc_size_ok", "live_stable", "reuse_only_after_recycle",
            "tiling_inv", "tiling_refines_alloc", "tiling_run_refines_alloc",
            "freelist_refines_alloc", "freelist_run_refines_alloc", "live_contents_untouched"]],
        "quick": [fam("memman")],
        "thorough": [fam("memman", "asan")],
        "leanchecker": ["MeddlyModel.State.MemMan"],
        "level_text": "Specification automaton Alloc (live chunks; request legal iff got>=want and the extent is disjoint from every live chunk; recycle legal iff exactly that chunk is live) with theorems for EVERY accepted trace: no overlap, size ok, a chunk stays live and unmoved until recycled, memory is handed out again only after a recycle, live contents untouched. Refinement models Tiling (orig grid / array+grid / heap: arena tiled by live chunks and holes, any sufficient hole may be taken, coalescing) and FreeList, each proved to preserve its invariant and to refine Alloc. Tie: trace validation - the harness drives all five real managers (granularity 4 and 8) with request/recycle histories, sentinels in every slot re-read after every step; the Lean acceptor validates every handle against Alloc.legal / Tiling.step / FreeList.step and every arena scan against Tiling.inv.",
        "level_note": "The hole-index structures' choice of hole is nondeterminism of the model (not predicted, validated). Out-of-bounds writes by a manager are exhibited by the sentinels and by ASan (thorough tier), not by a theorem. Out-of-memory paths and granularity 2 are not exercised.",
        "technique": "Lean 4 proof (invariants by induction over traces, refinement) + trace validation against the real managers",
        "partial": ["index structures (grid/heap) not modelled: their choice is the nondeterminism", "OOM / max_handle failure paths not exercised"],
    },
}

NOT_YET = {}


# DIFF kinds that are direct failures of the stated property on the implementation
# (the oracle is the property itself), per family.  Every other kind is a broken
# correspondence between model and code.
ORACLE_KINDS = {
    "*": {"op-result", "operand-changed", "canonicity", "canonical", "refcount", "dangling", "dangling-root",
          "node-count", "build", "eval-vs-structure", "crash", "unexpected-error", "error-code", "op-should-fail",
          "harness"},
}
