#!/usr/bin/env python3
"""Compute, for every theorem named in vlib/props.py, the Lean module that defines it (needs a healthy
`lake build`).  Written to vlib/theorem_modules.json; used by runner.py to scope a failed `lake build`
to the properties whose own modules are affected."""
import json, os, subprocess, sys, tempfile
V = os.path.dirname(os.path.dirname(os.path.abspath(__file__)))
sys.path.insert(0, os.path.join(V, "vlib"))
import props as P
names = sorted({t for c in P.PROPS.values() for t in c["theorems"]})
src = "import Lean\nimport MeddlyModel\nopen Lean Meta in\n#eval show MetaM Unit from do\n  let env ← getEnv\n  for n in [" + ", ".join("`" + n for n in names) + \
      "] do\n    match env.getModuleIdxFor? n with\n    | some idx => IO.println s!\"TM {n} {env.header.moduleNames[idx.toNat]!}\"\n    | none => IO.println s!\"TM {n} ?\"\n"
lean = os.path.join(V, "lean")
with tempfile.NamedTemporaryFile("w", suffix=".lean", dir=lean, delete=False) as f:
    f.write(src); path = f.name
try:
    r = subprocess.run(["lake", "env", "lean", path], cwd=lean, stdout=subprocess.PIPE, stderr=subprocess.STDOUT, text=True)
finally:
    os.unlink(path)
m = {}
for line in r.stdout.splitlines():
    if line.startswith("TM "):
        _, n, mod = line.split()
        m[n] = mod
missing = [n for n in names if m.get(n, "?") == "?"]
if missing:
    print("unresolved:", missing[:10], r.stdout[-500:])
    sys.exit(1)
json.dump(m, open(os.path.join(V, "vlib", "theorem_modules.json"), "w"), indent=0, sort_keys=True)
print("resolved", len(m), "theorems in", len(set(m.values())), "modules")
