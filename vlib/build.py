"""Build libmeddly + the harness from /repo's *current working tree*.

Objects are content-addressed: the key is the SHA-256 of every file under
/repo/src (sources and headers), /repo/config.h, the harness sources and the
flags, so any edit to the tree gives a different key and a real rebuild, while
twenty checks of one revision share one build.  The cache lives under
/verif/.cache (never /tmp) and holds at most KEEP entries.
"""
import hashlib, os, shutil, subprocess, sys, time, glob, fcntl

VERIF = os.path.dirname(os.path.dirname(os.path.abspath(__file__)))
REPO = os.environ.get("VERIF_REPO", "/repo")
CACHE = os.path.join(VERIF, ".cache", "build")
KEEP = 8
GUARD = "MEDDLY_VERIF"

FLAVORS = {
    # name: (compile flags, link flags)
    "plain": (["-O1", "-g0"], []),
    "asan": (["-O1", "-g", "-fsanitize=address,undefined", "-fno-sanitize=shift-base,alignment",
              "-fno-omit-frame-pointer"],
             ["-fsanitize=address,undefined"]),
}


def lib_sources():
    srcs = []
    for sub in (".", "forests", "memory_managers", "operations", "storage"):
        for f in sorted(glob.glob(os.path.join(REPO, "src", sub, "*.cc"))):
            if os.path.basename(f) == "realtest.cc":
                continue
            srcs.append(os.path.normpath(f))
    return srcs


def tree_hash(flavor, with_harness=True):
    h = hashlib.sha256()
    files = []
    for root, _, names in os.walk(os.path.join(REPO, "src")):
        for n in names:
            if n.endswith((".cc", ".h", ".hh")):
                files.append(os.path.join(root, n))
    files.append(os.path.join(REPO, "config.h"))
    if with_harness:
        for f in sorted(glob.glob(os.path.join(VERIF, "harness", "*"))):
            if f.endswith((".cc", ".h")):
                files.append(f)
    for f in sorted(files):
        h.update(f.encode())
        with open(f, "rb") as fh:
            h.update(hashlib.sha256(fh.read()).digest())
    h.update(repr(FLAVORS[flavor]).encode())
    return h.hexdigest()[:24]


def _run(cmd, **kw):
    return subprocess.run(cmd, stdout=subprocess.PIPE, stderr=subprocess.STDOUT, text=True, **kw)


def _compile_all(srcs, objdir, cflags, incs, log):
    os.makedirs(objdir, exist_ok=True)
    jobs = []
    for s in srcs:
        o = os.path.join(objdir, hashlib.md5(s.encode()).hexdigest()[:8] + "_" + os.path.basename(s)[:-3] + ".o")
        jobs.append((s, o))
    nproc = int(os.environ.get("VERIF_JOBS", str(os.cpu_count() or 4)))
    running = []
    failed = []
    pending = list(jobs)
    while pending or running:
        while pending and len(running) < nproc:
            s, o = pending.pop()
            cmd = ["g++", "-std=gnu++17", "-w", "-D" + GUARD, "-DHAVE_CONFIG_H"] + cflags + incs + ["-c", s, "-o", o]
            running.append((subprocess.Popen(cmd, stdout=subprocess.PIPE, stderr=subprocess.STDOUT, text=True), s))
        still = []
        for p, s in running:
            if p.poll() is None:
                still.append((p, s))
            else:
                out = p.stdout.read()
                if p.returncode != 0:
                    failed.append((s, out))
        running = still
        if running:
            time.sleep(0.02)
    if failed:
        for s, out in failed:
            log.append("COMPILE FAILED %s\n%s" % (s, out[-4000:]))
        return None
    return [o for _, o in jobs]


class BuildError(Exception):
    pass


def build(flavor="plain", verbose=True):
    """Return directory holding `mdh` (harness binary) for this tree+flavor."""
    os.makedirs(CACHE, exist_ok=True)
    key = tree_hash(flavor)
    out = os.path.join(CACHE, flavor + "-" + key)
    lock = open(os.path.join(CACHE, ".lock-" + flavor), "w")
    fcntl.flock(lock, fcntl.LOCK_EX)
    try:
        if os.path.exists(os.path.join(out, "mdh")) and not os.environ.get("VERIF_NO_CACHE"):
            os.utime(out, None)
            return out
        t0 = time.time()
        tmp = out + ".tmp%d" % os.getpid()
        shutil.rmtree(tmp, ignore_errors=True)
        os.makedirs(tmp)
        cflags, lflags = FLAVORS[flavor]
        incs = ["-I" + REPO, "-I" + os.path.join(REPO, "src")]
        log = []
        libkey = tree_hash(flavor, with_harness=False)
        libdir = os.path.join(CACHE, "lib-" + flavor + "-" + libkey)
        liba = os.path.join(libdir, "libmeddly.a")
        if not os.path.exists(liba) or os.environ.get("VERIF_NO_CACHE"):
            ltmp = libdir + ".tmp%d" % os.getpid()
            shutil.rmtree(ltmp, ignore_errors=True)
            objs = _compile_all(lib_sources(), os.path.join(ltmp, "lib"), cflags, incs, log)
            if objs is None:
                shutil.rmtree(tmp, ignore_errors=True)
                shutil.rmtree(ltmp, ignore_errors=True)
                raise BuildError("\n".join(log))
            r = _run(["ar", "rcs", os.path.join(ltmp, "libmeddly.a")] + objs)
            if r.returncode:
                raise BuildError(r.stdout)
            shutil.rmtree(os.path.join(ltmp, "lib"), ignore_errors=True)
            shutil.rmtree(libdir, ignore_errors=True)
            os.rename(ltmp, libdir)
        else:
            os.utime(libdir, None)
        hsrcs = sorted(glob.glob(os.path.join(VERIF, "harness", "*.cc")))
        hobjs = _compile_all(hsrcs, os.path.join(tmp, "h"), cflags,
                             incs + ["-I" + os.path.join(VERIF, "harness")], log)
        if hobjs is None:
            shutil.rmtree(tmp, ignore_errors=True)
            raise BuildError("\n".join(log))
        r = _run(["g++"] + lflags + hobjs + [liba, "-lgmp", "-o", os.path.join(tmp, "mdh")])
        if r.returncode:
            shutil.rmtree(tmp, ignore_errors=True)
            raise BuildError("LINK FAILED\n" + r.stdout[-4000:])
        shutil.rmtree(os.path.join(tmp, "h"), ignore_errors=True)
        shutil.rmtree(out, ignore_errors=True)
        os.rename(tmp, out)
        if verbose:
            print("[build] %s %s in %.1fs" % (flavor, key, time.time() - t0), file=sys.stderr)
        _prune()
        return out
    finally:
        fcntl.flock(lock, fcntl.LOCK_UN)
        lock.close()


def _prune():
    ents = [os.path.join(CACHE, d) for d in os.listdir(CACHE) if not d.startswith(".") and ".tmp" not in d]
    ents.sort(key=lambda p: os.path.getmtime(p), reverse=True)
    for p in ents[KEEP:]:
        shutil.rmtree(p, ignore_errors=True)
    # stale tmp dirs older than 1h
    for d in os.listdir(CACHE):
        p = os.path.join(CACHE, d)
        if ".tmp" in d and time.time() - os.path.getmtime(p) > 3600:
            shutil.rmtree(p, ignore_errors=True)


if __name__ == "__main__":
    for fl in sys.argv[1:] or ["plain"]:
        print(build(fl))
