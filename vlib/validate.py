import json, sys, glob, os
import jsonschema
V = os.path.dirname(os.path.dirname(os.path.abspath(__file__)))
jsonschema.validate(json.load(open(V + '/MANIFEST.json')), json.load(open('/root/.vp/MANIFEST.schema.json')))
print('manifest valid')
s = json.load(open('/root/.vp/EVIDENCE.schema.json'))
for f in sorted(glob.glob(V + '/evidence/*.json')):
    jsonschema.validate(json.load(open(f)), s); print(os.path.basename(f), 'valid')
