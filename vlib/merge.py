#!/usr/bin/env python3
"""merge.py <deliver dir> <name> [--plugins PIter:Driver.P_Iter:spec+step ...] [--models MeddlyModel.Ops.X ...] [--families a,b]
Copies NEW files of an agent delivery into /verif (never overwrites shared files), registers plugins and
model imports.  props.py entries are merged by hand."""
import os, sys, shutil, re
V = os.path.dirname(os.path.dirname(os.path.abspath(__file__)))
d = sys.argv[1]; name = sys.argv[2]
args = sys.argv[3:]
SHARED = {"lean/Driver/Plugins.lean", "lean/MeddlyModel.lean", "lean/Driver/Main.lean", "vlib/props.py", "vlib/runner.py",
          "vlib/build.py", "MANIFEST.json", "DESIGN.md", "known_findings.jsonl", "lean/Driver/Funcs.lean", "lean/Driver/Base.lean",
          "lean/Driver/Ops.lean", "harness/common.h", "harness/common.cc", "harness/main.cc", "check", "setup.sh"}
copied = []
for root, _, files in os.walk(d):
    for f in files:
        src = os.path.join(root, f)
        rel = os.path.relpath(src, d)
        if rel in SHARED or rel.startswith("evidence/") or rel.startswith(".cache") or rel.startswith("replay/"):
            if rel in SHARED:
                # report differences of shared files so they can be merged by hand
                dst = os.path.join(V, rel)
                if os.path.exists(dst) and open(src, errors="replace").read() != open(dst, errors="replace").read():
                    print("SHARED-DIFFERS", rel)
            continue
        if rel == "NOTES.md":
            dst = os.path.join(V, "docs", "NOTES_%s.md" % name)
        elif rel.endswith(".add.jsonl") or rel.endswith(".fragment.py") or rel.endswith("EDITS_TO_EXISTING_FILES.txt"):
            dst = os.path.join(V, "docs", "merge_%s_%s" % (name, os.path.basename(rel)))
        else:
            dst = os.path.join(V, rel)
        os.makedirs(os.path.dirname(dst), exist_ok=True)
        if os.path.exists(dst) and not rel.startswith(("harness/fam_", "lean/MeddlyModel/", "lean/Driver/P_", "translate/")) and rel != "NOTES.md":
            print("EXISTS-SKIP", rel); continue
        shutil.copy2(src, dst); copied.append(rel)
print("copied", len(copied)); [print("  ", c) for c in copied]
def opt(k):
    return args[args.index(k) + 1].split(",") if k in args else []
# plugins: Namespace:Module:what
pl = os.path.join(V, "lean/Driver/Plugins.lean"); s = open(pl).read()
for p in opt("--plugins"):
    ns, mod, what = p.split(":")
    if ("import " + mod) not in s:
        s = s.replace("import Driver.Ops\n", "import Driver.Ops\nimport %s\n" % mod, 1)
    if "spec" in what and (ns + ".spec") not in s:
        s = re.sub(r"def specChain : List Ops.SpecFn := \[", "def specChain : List Ops.SpecFn := [%s.spec, " % ns, s, 1)
    if "step" in what and (ns + ".step") not in s:
        s = s.replace("  [([\"pregen\"], PPregen.step),", "  [([\"%s\"], %s.step), ([\"pregen\"], PPregen.step)," % (name, ns), 1)
open(pl, "w").write(s)
mm = os.path.join(V, "lean/MeddlyModel.lean"); s = open(mm).read()
for m in opt("--models"):
    if ("import " + m + "\n") not in s:
        s += "import %s\n" % m
open(mm, "w").write(s)
mn = os.path.join(V, "lean/Driver/Main.lean"); s = open(mn).read()
for f in opt("--families"):
    if ('"%s"' % f) not in s:
        s = s.replace('["setops",', '["%s", "setops",' % f, 1)
open(mn, "w").write(s)
