"""Audit of the Lean side: axioms of every property theorem, forbidden constructs."""
import os, re, subprocess, tempfile, glob

ALLOWED = {"propext", "Classical.choice", "Quot.sound"}


def audit(theorems, leandir, allowed_extra=(), imports=None):
    allowed = ALLOWED | set(allowed_extra)
    hdr = "".join("import %s\n" % m for m in imports) if imports else "import MeddlyModel\n"
    src = hdr + "".join("#print axioms %s\n" % t for t in theorems)
    with tempfile.NamedTemporaryFile("w", suffix=".lean", dir=leandir, delete=False) as f:
        f.write(src)
        path = f.name
    try:
        r = subprocess.run(["lake", "env", "lean", path], cwd=leandir, stdout=subprocess.PIPE,
                           stderr=subprocess.STDOUT, text=True)
    finally:
        os.unlink(path)
    out = r.stdout
    res = []
    flat = re.sub(r"\s+", " ", out)
    for t in theorems:
        m = re.search(r"'%s' depends on axioms: \[([^\]]*)\]" % re.escape(t), flat)
        if m:
            axs = {a.strip() for a in m.group(1).split(",") if a.strip()}
            bad = sorted(a for a in axs if a not in allowed)
            if bad:
                res.append((t, False, "uses axioms outside the allow-list: " + ", ".join(bad)))
            else:
                res.append((t, True, "axioms: " + ", ".join(sorted(axs))))
        elif re.search(r"'%s' does not depend on any axioms" % re.escape(t), flat):
            res.append((t, True, "axioms: none"))
        else:
            # unknown constant or elaboration error
            em = re.search(r"error:[^\n]*%s[^\n]*" % re.escape(t.split(".")[-1]), out)
            res.append((t, False, "not found / not checked: " + (em.group(0) if em else out[-300:].replace("\n", " "))))
    return res


FORBIDDEN = re.compile(r"\bsorry\b|\badmit\b|^\s*axiom\s|native_decide|\bbv_decide\b|implemented_by|\bunsafe\s|maxHeartbeats\s+0\b")


def strip_comments(text):
    # remove /- ... -/ (nested not handled beyond one level is fine here) and -- comments
    out = []
    depth = 0
    i = 0
    n = len(text)
    while i < n:
        if text.startswith("/-", i):
            depth += 1; i += 2; continue
        if depth and text.startswith("-/", i):
            depth -= 1; i += 2; continue
        if depth:
            if text[i] == "\n":
                out.append("\n")
            i += 1; continue
        if text.startswith("--", i):
            while i < n and text[i] != "\n":
                i += 1
            continue
        out.append(text[i]); i += 1
    return "".join(out)


def grep_forbidden(leandir):
    hits = []
    for f in sorted(glob.glob(os.path.join(leandir, "MeddlyModel", "**", "*.lean"), recursive=True)):
        txt = strip_comments(open(f, errors="replace").read())
        # string literals may legitimately contain the words (e.g. diagnostics); drop them
        txt = re.sub(r'"(?:[^"\\]|\\.)*"', '""', txt)
        for ln, line in enumerate(txt.splitlines(), 1):
            if FORBIDDEN.search(line):
                hits.append("%s:%d: %s" % (os.path.relpath(f, leandir), ln, line.strip()[:80]))
    return hits


def module_relevant(mod, cfg):
    mods = cfg.get("modules")
    if not mods:
        return True
    return any(mod.startswith(m) for m in mods)
