"""Regenerate MANIFEST.json's checks / not_applicable from vlib/props.py."""
import json, os, sys
sys.path.insert(0, os.path.dirname(os.path.abspath(__file__)))
import props as P
VERIF = os.path.dirname(os.path.dirname(os.path.abspath(__file__)))
m = json.load(open(os.path.join(VERIF, "MANIFEST.json")))
all_ids = [json.loads(l)["id"] for l in open(os.path.join(VERIF, "properties.jsonl"))]
checks = []
for pid in all_ids:
    if pid not in P.PROPS:
        continue
    c = P.PROPS[pid]
    checks.append({
        "property_id": pid,
        "quick_cmd": "python3 ./check %s --tier quick" % pid,
        "thorough_cmd": "python3 ./check %s --tier thorough" % pid,
        "evidence_file": "evidence/%s.json" % pid,
        "replay_cmd_template": "python3 ./check %s --replay {path}" % pid,
        "engine": "lean-model+harness",
        "level_claimed": {"category": "proof", "text": c["level_text"], "design_ref": c.get("design_ref", "DESIGN.md §5 " + pid)},
        "level_note": c["level_note"],
        "technique": c["technique"],
    })
m["checks"] = checks
# independent of the files' mode bits (a copied-over setup.sh once lost its x bit)
m["setup_cmd"] = "cd /verif && bash ./setup.sh"
m["not_applicable"] = [{"property_id": pid, "reason": P.NOT_YET.get(pid, "check not built yet in this revision; see DESIGN.md §9 staging")}
                       for pid in all_ids if pid not in P.PROPS]
for e in m["engines"]:
    if e["name"] in ("lean-model", "harness"):
        e["serves_properties"] = [c["property_id"] for c in checks]
json.dump(m, open(os.path.join(VERIF, "MANIFEST.json"), "w"), indent=1)
print("claimed:", [c["property_id"] for c in checks])
