#!/usr/bin/env python3
"""Regenerate the generated sections of DESIGN.md (per-property status, findings) from vlib/props.py and
known_findings.jsonl.  Everything between the BEGIN/END GENERATED markers is replaced."""
import json, os, sys, textwrap
V = os.path.dirname(os.path.dirname(os.path.abspath(__file__)))
sys.path.insert(0, os.path.join(V, "vlib"))
import props as P
out = []
out.append("## 12. Per-property status as built (generated from vlib/props.py — `python3 vlib/gendesign.py`)\n")
out.append("Every property is claimed at level **proof**: the Lean theorems listed (audited with `#print axioms` on every run)\n"
           "decide it for the model; the named harness families tie the model to /repo's current source on every run.\n")
for pid in sorted(P.PROPS):
    c = P.PROPS[pid]
    fams = ", ".join(sorted({f["family"] + ("" if not f.get("args") else "(" + ",".join("%s=%s" % kv for kv in f["args"].items()) + ")") for f in c["quick"]}))
    out.append("### %s — %s\n" % (pid, c["title"]))
    out.append("*Families (quick):* %s.  *Technique:* %s.\n" % (fams, c["technique"]))
    out.append("*Theorems (%d):* %s\n" % (len(c["theorems"]), ", ".join("`%s`" % t.replace("Meddly.", "") for t in c["theorems"])))
    out.append(textwrap.fill("*What they give and how it is tied:* " + c["level_text"], 100) + "\n")
    out.append(textwrap.fill("*Trusted / not modelled:* " + c["level_note"], 100) + "\n")
    if c.get("partial"):
        out.append("*Partial:* " + "; ".join(c["partial"]) + "\n")
out.append("\n## 13. Findings on asminer/meddly (generated from known_findings.jsonl)\n")
out.append("`fixed` = repaired by the named unguarded `fix:` commit in /repo (suppresses nothing: the check would report it again);\n"
           "`known` = genuine defect recorded, not repaired (repair not small/safe, or a design question); the check prints one\n"
           "`KNOWN-FINDING:` line for it and exits 0, any other violation of the property is still reported.  Candidate patches for\n"
           "several `known` entries are kept in `docs/patches/`.\n")
for line in open(os.path.join(V, "known_findings.jsonl")):
    if not line.startswith("{"):
        continue
    j = json.loads(line)
    what = j["what"]
    out.append("* **%s %s%s** — %s" % (j["status"], j["property"], (" " + j["commit"]) if j.get("commit") else "", what[:700]))
gen = "\n".join(out) + "\n"
p = os.path.join(V, "DESIGN.md"); s = open(p).read()
B, E = "<!-- BEGIN GENERATED -->", "<!-- END GENERATED -->"
if B in s:
    s = s[:s.index(B)] + B + "\n" + gen + E + s[s.index(E) + len(E):]
else:
    s = s.rstrip() + "\n\n--------------------------------------------------------------------------------\n\n" + B + "\n" + gen + E + "\n"
open(p, "w").write(s)
print("DESIGN.md regenerated:", len(gen), "chars")
